package main

// A tiny evaluator for ground SMT terms (bit-vector constants, comparisons, boolean structure and selects over
// constant-index store chains): used to check table facts exhaustively.

import (
	"math/big"
	"strings"
)

type gArr struct {
	def   interface{}
	store map[string]interface{}
}

func evalGround(n *sx) interface{} {
	if n == nil {
		return nil
	}
	if n.kids == nil {
		a := n.atom
		switch {
		case a == "true":
			return true
		case a == "false":
			return false
		case strings.HasPrefix(a, "#x"):
			v, _ := new(big.Int).SetString(a[2:], 16)
			return gbv{v, 4 * (len(a) - 2)}
		case strings.HasPrefix(a, "#b"):
			v, _ := new(big.Int).SetString(a[2:], 2)
			return gbv{v, len(a) - 2}
		}
		return nil
	}
	h := n.head()
	if h == "" && len(n.kids) == 2 && n.kids[0].kids != nil && n.kids[0].head() == "as" {
		// ((as const (Array ...)) v)
		return &gArr{def: evalGround(n.kids[1]), store: map[string]interface{}{}}
	}
	if h == "" && len(n.kids) == 2 && n.kids[0].kids != nil && n.kids[0].head() == "_" {
		// ((_ extract hi lo) x), ((_ zero_extend k) x), ((_ sign_extend k) x)
		op := n.kids[0].kids[1].atom
		x, ok := evalGround(n.kids[1]).(gbv)
		if !ok {
			return nil
		}
		switch op {
		case "extract":
			hi, lo := atoi(n.kids[0].kids[2].atom), atoi(n.kids[0].kids[3].atom)
			v := new(big.Int).Rsh(x.v, uint(lo))
			return gbv{v.And(v, mask(hi-lo+1)), hi - lo + 1}
		case "zero_extend":
			return gbv{x.v, x.w + atoi(n.kids[0].kids[2].atom)}
		case "sign_extend":
			k := atoi(n.kids[0].kids[2].atom)
			sv := signed(x.w, x.v)
			nv := new(big.Int).And(sv, mask(x.w+k))
			if sv.Sign() < 0 {
				nv = new(big.Int).Mod(sv, new(big.Int).Lsh(big.NewInt(1), uint(x.w+k)))
			}
			return gbv{nv, x.w + k}
		}
		return nil
	}
	var args []interface{}
	for _, k := range n.kids[1:] {
		args = append(args, evalGround(k))
	}
	for _, a := range args {
		if a == nil {
			return nil
		}
	}
	bv2 := func() (gbv, gbv, bool) {
		if len(args) != 2 {
			return gbv{}, gbv{}, false
		}
		a, ok1 := args[0].(gbv)
		b, ok2 := args[1].(gbv)
		return a, b, ok1 && ok2
	}
	switch h {
	case "not":
		if b, ok := args[0].(bool); ok {
			return !b
		}
	case "and":
		r := true
		for _, a := range args {
			b, ok := a.(bool)
			if !ok {
				return nil
			}
			r = r && b
		}
		return r
	case "or":
		r := false
		for _, a := range args {
			b, ok := a.(bool)
			if !ok {
				return nil
			}
			r = r || b
		}
		return r
	case "=>":
		a, ok1 := args[0].(bool)
		b, ok2 := args[1].(bool)
		if ok1 && ok2 {
			return !a || b
		}
	case "ite":
		c, ok := args[0].(bool)
		if ok {
			if c {
				return args[1]
			}
			return args[2]
		}
	case "=":
		if a, b, ok := bv2(); ok {
			return a.v.Cmp(b.v) == 0
		}
		a, ok1 := args[0].(bool)
		b, ok2 := args[1].(bool)
		if ok1 && ok2 {
			return a == b
		}
	case "bvult", "bvule", "bvslt", "bvsle":
		if a, b, ok := bv2(); ok {
			x, y := a.v, b.v
			if h[2] == 's' {
				x, y = signed(a.w, a.v), signed(b.w, b.v)
			}
			c := x.Cmp(y)
			if strings.HasSuffix(h, "lt") {
				return c < 0
			}
			return c <= 0
		}
	case "bvadd", "bvsub", "bvand", "bvor", "bvxor", "bvlshr", "bvshl", "bvmul":
		if a, b, ok := bv2(); ok {
			var r *big.Int
			switch h {
			case "bvadd":
				r = new(big.Int).Add(a.v, b.v)
			case "bvsub":
				r = new(big.Int).Sub(a.v, b.v)
			case "bvmul":
				r = new(big.Int).Mul(a.v, b.v)
			case "bvand":
				r = new(big.Int).And(a.v, b.v)
			case "bvor":
				r = new(big.Int).Or(a.v, b.v)
			case "bvxor":
				r = new(big.Int).Xor(a.v, b.v)
			case "bvlshr":
				if b.v.Cmp(big.NewInt(int64(a.w))) >= 0 {
					r = big.NewInt(0)
				} else {
					r = new(big.Int).Rsh(a.v, uint(b.v.Int64()))
				}
			case "bvshl":
				if b.v.Cmp(big.NewInt(int64(a.w))) >= 0 {
					r = big.NewInt(0)
				} else {
					r = new(big.Int).Lsh(a.v, uint(b.v.Int64()))
				}
			}
			r = new(big.Int).Mod(r, new(big.Int).Lsh(big.NewInt(1), uint(a.w)))
			return gbv{r, a.w}
		}
	case "store":
		arr, ok := args[0].(*gArr)
		idx, ok2 := args[1].(gbv)
		if ok && ok2 {
			na := &gArr{def: arr.def, store: map[string]interface{}{}}
			for k, v := range arr.store {
				na.store[k] = v
			}
			na.store[idx.v.String()] = args[2]
			return na
		}
	case "select":
		arr, ok := args[0].(*gArr)
		idx, ok2 := args[1].(gbv)
		if ok && ok2 {
			if v, ok := arr.store[idx.v.String()]; ok {
				return v
			}
			return arr.def
		}
	}
	return nil
}

type gbv struct {
	v *big.Int
	w int
}

func atoi(s string) int {
	n := 0
	for _, c := range s {
		n = n*10 + int(c-'0')
	}
	return n
}
