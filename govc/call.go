package main

// Calls: builtins, modelled externals, contract application, inlining.

import (
	"fmt"
	"go/token"
	"go/types"
	"strings"

	"golang.org/x/tools/go/ssa"
)

const maxInlineDepth = 6

func (fx *FuncCtx) call(st *State, x *ssa.Call) (forks []*State, ended bool) {
	f := st.top()
	cc := &x.Call
	if cc.IsInvoke() {
		// interface method call: unknown effects on its arguments' pointees are not modelled
		nm := cc.Method.Name()
		if nm != "Error" && nm != "Write" && nm != "WriteByte" {
			fx.warn("interface method call %s.%s treated as effect-free with unknown result", cc.Value.Type(), nm)
		}
		f.vals[x] = fx.Fresh(x.Type(), "invoke."+nm)
		return nil, false
	}
	switch callee := cc.Value.(type) {
	case *ssa.Builtin:
		f.vals[x] = fx.builtin(st, x, callee)
		fx.afterCall(st, x)
		return nil, false
	case *ssa.Function:
		return fx.callStatic(st, x, callee)
	case *ssa.MakeClosure:
		if fn, ok := callee.Fn.(*ssa.Function); ok {
			return fx.callStatic(st, x, fn)
		}
	}
	// ghost precondition of a callback: what must hold whenever the code calls it
	if f.ct != nil {
		for i := range f.ct.CallReqs[cc.Value.Name()] {
			c := &f.ct.CallReqs[cc.Value.Name()][i]
			env := fx.frameEnv(st, f)
			fx.bindLocals(env, st, f)
			st.obligeP("callreq", fmt.Sprintf("callback#%s.requires.%s", cc.Value.Name(), c.Name), env.evalBool(c.Expr), f.ct.propsOf(c), x.Pos())
		}
	}
	// call through a function value (callback): uninterpreted, assumed not to modify modelled memory
	fx.warn("call through function value %s: callback assumed not to modify tape/strings", cc.Value.Name())
	f.vals[x] = fx.Fresh(x.Type(), "callback")
	return nil, false
}

func (fx *FuncCtx) args(st *State, cc *ssa.CallCommon) []Value {
	var as []Value
	for _, a := range cc.Args {
		as = append(as, st.val(a))
	}
	return as
}

func (fx *FuncCtx) builtin(st *State, x *ssa.Call, b *ssa.Builtin) Value {
	f := st.top()
	cc := &x.Call
	switch b.Name() {
	case "len":
		switch v := st.val(cc.Args[0]).(type) {
		case SliceVal:
			return v.Len
		case StringVal:
			return v.Len
		case MapVal:
			return v.Len
		case ArrayVal:
			return i64(cc.Args[0].Type().Underlying().(*types.Array).Len())
		case PtrVal:
			return i64(cc.Args[0].Type().Underlying().(*types.Pointer).Elem().Underlying().(*types.Array).Len())
		}
		r := fx.FreshSym("len", SBV64)
		fx.axiom(BVSle(i64(0), r))
		return r
	case "cap":
		switch v := st.val(cc.Args[0]).(type) {
		case SliceVal:
			return v.Cap
		case ArrayVal:
			return i64(cc.Args[0].Type().Underlying().(*types.Array).Len())
		}
		r := fx.FreshSym("cap", SBV64)
		fx.axiom(BVSle(i64(0), r))
		return r
	case "append":
		dst := st.val(cc.Args[0]).(SliceVal)
		if len(cc.Args) == 1 {
			return dst
		}
		return fx.appendSlice(st, dst, st.val(cc.Args[1]), x.Pos(), x)
	case "copy":
		dst := st.val(cc.Args[0]).(SliceVal)
		var soff, slen Term
		var sarr ArrayVal
		switch s := st.val(cc.Args[1]).(type) {
		case SliceVal:
			soff, slen, sarr = s.Off, s.Len, st.baseArr(s.Base)
		case StringVal:
			soff, slen, sarr = s.Off, s.Len, st.baseArr(s.Base)
		}
		n := Ite(BVSlt(dst.Len, slen), dst.Len, slen)
		fx.bulkCopy(st, dst.Base, dst.Off, sarr, soff, n)
		return n
	case "delete":
		return nil
	case "min", "max":
		a, bb := st.val(cc.Args[0]).(Term), st.val(cc.Args[1]).(Term)
		sg := isSignedType(cc.Args[0].Type())
		var lt Term
		if sg {
			lt = BVSlt(a, bb)
		} else {
			lt = BVUlt(a, bb)
		}
		if b.Name() == "min" {
			return Ite(lt, a, bb)
		}
		return Ite(lt, bb, a)
	case "print", "println":
		return nil
	case "close":
		return nil
	case "recover":
		return IfaceVal{Nil: True()}
	}
	_ = f
	panic("unsupported builtin " + b.Name())
}

// bulkCopy writes n elements from src[soff:] into the array at dstBase[doff:].
func (fx *FuncCtx) bulkCopy(st *State, dstBase PtrVal, doff Term, src ArrayVal, soff, n Term) {
	da := st.baseArr(dstBase)
	if da.Opaque || src.Opaque {
		return
	}
	if n.C != nil && n.C.IsInt64() && n.C.Int64() <= 64 {
		arr := da.Arr
		for k := int64(0); k < n.C.Int64(); k++ {
			arr = Store(arr, BVAdd(doff, i64(k)), Select(src.Arr, BVAdd(soff, i64(k))))
		}
		st.Store(dstBase, ArrayVal{Arr: arr, ElemT: da.ElemT})
		return
	}
	na := fx.FreshSym("copied", da.Arr.So)
	j := Sym("j!cp", SBV64)
	inr := And(BVSle(doff, j), BVSlt(j, BVAdd(doff, n)))
	body := Eq2(Select(na, j), Ite(inr, Select(src.Arr, BVAdd(soff, BVSub(j, doff))), Select(da.Arr, j)))
	st.assume(Forall([]Term{j}, body))
	st.Store(dstBase, ArrayVal{Arr: na, ElemT: da.ElemT})
}

// Eq2 is structural equality usable on any sort.
func Eq2(a, b Term) Term { return StructEq(a, b) }

// appendSlice models append with copy semantics: the result lives in a fresh backing array.
// (Assumption A-append: nothing observes, through an older header, elements written beyond that header's length.)
func (fx *FuncCtx) appendSlice(st *State, dst SliceVal, more Value, pos token.Pos, site ssa.Instruction) Value {
	var n Term
	var srcArr ArrayVal
	var soff Term
	switch s := more.(type) {
	case SliceVal:
		n, srcArr, soff = s.Len, st.baseArr(s.Base), s.Off
	case StringVal:
		n, srcArr, soff = s.Len, st.baseArr(s.Base), s.Off
	default:
		panic(fmt.Sprintf("append of %T", more))
	}
	da := st.baseArr(dst.Base)
	o := st.siteObject(site, types.NewArray(dst.ElemT, 0), "append")
	st.heap[o] = da
	nb := PtrVal{Obj: o, Nil: False()}
	fx.bulkCopy(st, nb, BVAdd(dst.Off, dst.Len), srcArr, soff, n)
	nl := BVAdd(dst.Len, n)
	nc := fx.FreshSym("appcap", SBV64)
	lim := BVConstU(64, 1<<maxSliceLog)
	// capacity: unchanged if it sufficed, otherwise at least the new length
	st.assume(And(BVSle(nl, nc), BVSlt(nc, lim), Implies(BVSle(nl, dst.Cap), Eq(nc, dst.Cap))))
	isnil := And(dst.Nil, Eq(n, i64(0)))
	return SliceVal{Base: nb, Off: dst.Off, Len: nl, Cap: nc, Nil: isnil, ElemT: dst.ElemT}
}

func funcKey(fn *ssa.Function) string {
	if fn.Signature.Recv() != nil {
		rt := fn.Signature.Recv().Type()
		ptr := ""
		if p, ok := rt.(*types.Pointer); ok {
			rt = p.Elem()
			ptr = "*"
		}
		if n, ok := rt.(*types.Named); ok {
			return fmt.Sprintf("(%s%s).%s", ptr, n.Obj().Name(), fn.Name())
		}
	}
	if fn.Pkg != nil && fn.Pkg.Pkg.Path() != "" && fn.Parent() == nil {
		return fn.Name()
	}
	return fn.Name()
}

func fullName(fn *ssa.Function) string {
	if fn.Pkg != nil {
		if fn.Signature.Recv() != nil {
			return fn.Pkg.Pkg.Path() + "." + funcKey(fn)
		}
		return fn.Pkg.Pkg.Path() + "." + fn.Name()
	}
	// methods of instantiated/external types
	return fn.String()
}

func (fx *FuncCtx) callStatic(st *State, x *ssa.Call, callee *ssa.Function) (forks []*State, ended bool) {
	f := st.top()
	args := fx.args(st, &x.Call)
	inPkg := callee.Pkg != nil && callee.Pkg == fx.eng.spkg
	if inPkg && callee.Name() == "unsafeBytesToString" {
		// trusted model of unsafe code: the string aliases the bytes of b
		fx.warn("trusted: unsafeBytesToString(b) is modelled as a string over the same bytes as b (unsafe code, not verified)")
		if b, ok := args[0].(SliceVal); ok {
			f.vals[x] = StringVal{Base: b.Base, Off: b.Off, Len: b.Len}
			return nil, false
		}
	}
	if !inPkg {
		r, ok := fx.extern(st, x, callee, args)
		if !ok {
			fx.warn("external call %s: result unknown, arguments assumed unmodified", fullName(callee))
			r = fx.Fresh(x.Type(), "ext."+callee.Name())
		}
		if r != nil {
			f.vals[x] = r
		}
		fx.afterCall(st, x)
		return nil, false
	}
	// contract?
	if ct := fx.eng.summaryFor(callee); ct != nil {
		if ct.Trusted != "" {
			fx.warn("trusted contract of %s (%s)", ct.FuncKey, ct.Trusted)
		}
		fx.applyContract(st, x, callee, ct, args)
		fx.afterCall(st, x)
		return nil, false
	}
	if len(callee.Blocks) == 0 {
		// assembly stub without contract
		fx.warn("body-less function %s called without contract: result unknown", callee.Name())
		f.vals[x] = fx.Fresh(x.Type(), "asm."+callee.Name())
		return nil, false
	}
	// recursion / depth guard
	for _, fr := range st.stack {
		if fr.fn == callee {
			fx.warn("recursive call to %s without contract: result unknown", callee.Name())
			f.vals[x] = fx.Fresh(x.Type(), "rec."+callee.Name())
			return nil, false
		}
	}
	if len(st.stack) > maxInlineDepth {
		fx.warn("inline depth exceeded at %s", callee.Name())
		f.vals[x] = fx.Fresh(x.Type(), "deep."+callee.Name())
		return nil, false
	}
	// inline
	nf := &Frame{fn: callee, ct: fx.eng.loopContractFor(callee), vals: map[ssa.Value]Value{}, blk: callee.Blocks[0], call: x,
		visited: map[*ssa.BasicBlock]*loopVisit{}, locals: map[string]Value{}, prefix: f.prefix + callee.Name() + ">", depth: f.depth + 1}
	for i, p := range callee.Params {
		nf.vals[p] = args[i]
	}
	if mc, ok := x.Call.Value.(*ssa.MakeClosure); ok {
		for i, fv := range callee.FreeVars {
			nf.vals[fv] = st.val(mc.Bindings[i])
		}
	}
	if nf.ct != nil {
		nf.entry = st.snapshot()
	}
	st.stack = append(st.stack, nf)
	return nil, false
}

// applyContract: assert requires, havoc assigns, assume ensures.
func (fx *FuncCtx) applyContract(st *State, x *ssa.Call, callee *ssa.Function, ct *Contract, args []Value) {
	f := st.top()
	env := &SpecEnv{fx: fx, st: st, vars: map[string]Value{}, info: ct.Info, ct: ct}
	for i, p := range callee.Params {
		env.vars[p.Name()] = args[i]
	}
	pre := st.snapshot()
	env.old = pre
	site := callee.Name()
	// ghosts become bound variables of a quantified hypothesis
	var bound []Term
	for _, g := range ct.Ghosts {
		so, _ := sortOfType(g.T)
		fx.symID++
		b := Sym(fmt.Sprintf("%s!g%d", g.Name, fx.symID), so)
		bound = append(bound, b)
		env.vars[g.Name] = b
	}
	if callee == fx.fn {
		if ds := ct.Decreases["rec"]; len(ds) > 0 {
			for _, c := range ds {
				nv := env.eval(c.Expr).(Term)
				ov := fx.specEnv(fx.entry, nil).eval(c.Expr).(Term)
				g := And(BVSle(BVConst(nv.So.W, 0), ov), BVSlt(nv, ov))
				cc := c
				st.obligeP("decreases", "rec.decreases#"+c.Name, g, ct.propsOf(&cc), x.Pos())
			}
		} else if ct.Safe {
			st.obligeP("decreases", "rec.decreases#missing", False(), ct.SafeProps, x.Pos())
		}
	} else if ds, mine := ct.Decreases["rec"], fx.ct.Decreases["rec"]; len(ds) > 0 && len(mine) > 0 && fx.ct.Opts["recgroup"] != "" && fx.ct.Opts["recgroup"] == ct.Opts["recgroup"] {
		// mutual recursion: both functions belong to the same declared recursion group; the callee's measure on the
		// arguments is strictly below the caller's measure at entry (one common well-founded order for the group)
		nv := env.eval(ds[0].Expr).(Term)
		ov := fx.specEnv(fx.entry, nil).eval(mine[0].Expr).(Term)
		g := And(BVSle(BVConst(nv.So.W, 0), ov), BVSlt(nv, ov))
		st.obligeP("decreases", "rec.decreases#"+callee.Name(), g, fx.ct.SafeProps, x.Pos())
	}
	var ghostReq []Term
	for _, c := range ct.Requires {
		t := env.evalBool(c.Expr)
		if c.UsesGhost {
			ghostReq = append(ghostReq, t)
			continue
		}
		st.oblige("call", fmt.Sprintf("call#%s.requires.%s", site, c.Name), t, x.Pos())
		st.assume(t)
	}
	// havoc frame
	for _, a := range ct.Assigns {
		p, ok := env.evalAddr(a.Expr)
		if !ok {
			fx.warn("assigns clause %q of %s could not be resolved at a call site", a.Src, ct.FuncKey)
			continue
		}
		old := st.Load(p, nil)
		nv := fx.havocValueKeep(old, "post."+callee.Name(), false)
		st.Store(p, nv)
	}
	// results
	sig := callee.Signature
	var results []Value
	for i := 0; i < sig.Results().Len(); i++ {
		rv := fx.Fresh(sig.Results().At(i).Type(), "ret."+callee.Name())
		results = append(results, rv)
	}
	bindResults(env, sig, results)
	env.st = st
	var ens []Term
	for _, c := range ct.Ensures {
		ens = append(ens, env.evalBool(c.Expr))
	}
	hyp := Implies(And(ghostReq...), And(ens...))
	if len(bound) > 0 {
		hyp = Forall(bound, hyp)
	}
	st.assume(hyp)
	switch len(results) {
	case 0:
	case 1:
		f.vals[x] = results[0]
	default:
		f.vals[x] = TupleVal(results)
	}
}

func bindResults(env *SpecEnv, sig *types.Signature, results []Value) {
	n := sig.Results().Len()
	for i := 0; i < n; i++ {
		nm := sig.Results().At(i).Name()
		if nm != "" && nm != "_" {
			env.vars[nm] = results[i]
		}
		env.vars[fmt.Sprintf("result%d", i)] = results[i]
	}
	if n == 1 {
		env.vars["result"] = results[0]
	}
}

func (st *State) snapshot() *State {
	ns := &State{fx: st.fx, heap: make(map[*Object]Value, len(st.heap))}
	for k, v := range st.heap {
		ns.heap[k] = v
	}
	ns.stack = st.stack
	ns.discover = &discoverCtx{} // no obligations from spec evaluation in snapshots
	return ns
}

// extern models functions outside the package. Returns (nil,true) for no-result calls.
func (fx *FuncCtx) extern(st *State, x *ssa.Call, callee *ssa.Function, args []Value) (Value, bool) {
	name := fullName(callee)
	f := st.top()
	_ = f
	nonNilErr := func() Value { return IfaceVal{Nil: False(), T: x.Type()} }
	switch name {
	case "errors.New", "fmt.Errorf":
		return nonNilErr(), true
	case "errors.Is":
		if iv, ok := args[0].(IfaceVal); ok && iv.Aux != nil {
			return And(Not(iv.Nil), *iv.Aux), true
		}
		return fx.FreshSym("errorsIs", SBool), true
	case "fmt.Println", "fmt.Printf":
		return fx.Fresh(x.Type(), "fmt"), true
	case "math.Float64frombits":
		return FPFromBits(args[0].(Term)), true
	case "math.Float64bits":
		return fx.float64bits(args[0].(Term)), true
	case "math.IsNaN":
		return Term{S: "(fp.isNaN " + args[0].(Term).S + ")", So: SBool}, true
	case "math.IsInf":
		ft := args[0].(Term)
		sg := args[1].(Term)
		inf := Term{S: "(fp.isInfinite " + ft.S + ")", So: SBool}
		neg := Term{S: "(fp.isNegative " + ft.S + ")", So: SBool}
		zero := BVConst(64, 0)
		return And(inf, Or(Eq(sg, zero), And(BVSlt(zero, sg), Not(neg)), And(BVSlt(sg, zero), neg))), true
	case "math.Abs":
		return Term{S: "(fp.abs " + args[0].(Term).S + ")", So: SFP}, true
	case "encoding/binary.(littleEndian).Uint64", "encoding/binary.(littleEndian).Uint32", "encoding/binary.(littleEndian).Uint16":
		n := map[string]int{"Uint64": 8, "Uint32": 4, "Uint16": 2}[callee.Name()]
		sv := args[len(args)-1].(SliceVal)
		site := fx.siteText(f.fn, x.Pos(), "call")
		g := BVSle(i64(int64(n)), sv.Len)
		st.oblige("safe", "safe#index@"+site, g, x.Pos())
		st.assume(g)
		arr := st.baseArr(sv.Base).Arr
		r := Select(arr, sv.Off)
		for k := 1; k < n; k++ {
			r = Concat(Select(arr, BVAdd(sv.Off, i64(int64(k)))), r)
		}
		return r, true
	case "encoding/binary.(littleEndian).PutUint64", "encoding/binary.(littleEndian).PutUint32":
		n := map[string]int{"PutUint64": 8, "PutUint32": 4}[callee.Name()]
		sv := args[len(args)-2].(SliceVal)
		v := args[len(args)-1].(Term)
		site := fx.siteText(f.fn, x.Pos(), "call")
		g := BVSle(i64(int64(n)), sv.Len)
		st.oblige("safe", "safe#index@"+site, g, x.Pos())
		st.assume(g)
		da := st.baseArr(sv.Base)
		arr := da.Arr
		for k := 0; k < n; k++ {
			arr = Store(arr, BVAdd(sv.Off, i64(int64(k))), Extract(8*k+7, 8*k, v))
		}
		st.Store(sv.Base, ArrayVal{Arr: arr, ElemT: da.ElemT})
		return nil, true
	case "encoding/binary.PutUvarint":
		r := fx.FreshSym("uvarlen", SBV64)
		st.assume(And(BVSle(i64(1), r), BVSle(r, i64(10))))
		sv := args[0].(SliceVal)
		site := fx.siteText(f.fn, x.Pos(), "call")
		// PutUvarint panics if the buffer is too small; 10 bytes always suffice
		val := args[1].(Term)
		need := Ite(BVUlt(val, BVConstU(64, 1<<56)), i64(8), i64(10))
		st.oblige("safe", "safe#index@"+site, BVSle(need, sv.Len), x.Pos())
		st.havocArr(sv.Base)
		return r, true
	case "bytes.Equal":
		a, b := args[0].(SliceVal), args[1].(SliceVal)
		return fx.bytesEq(st, a.Base, a.Off, a.Len, b.Base, b.Off, b.Len), true
	case "bytes.TrimSpace":
		s := args[0].(SliceVal)
		k := fx.FreshSym("trimlo", SBV64)
		l := fx.FreshSym("trimlen", SBV64)
		st.assume(And(BVSle(i64(0), k), BVSle(i64(0), l), BVSle(BVAdd(k, l), s.Len)))
		return SliceVal{Base: s.Base, Off: BVAdd(s.Off, k), Len: l, Cap: BVSub(s.Cap, k), Nil: fx.FreshSym("trimnil", SBool), ElemT: s.ElemT}, true
	case "strconv.AppendInt", "strconv.AppendUint", "strconv.AppendFloat":
		dst := args[0].(SliceVal)
		n := fx.FreshSym("numlen", SBV64)
		st.assume(And(BVSle(i64(1), n), BVSle(n, i64(400))))
		r := fx.Fresh(types.NewSlice(types.Typ[types.Uint8]), "num").(SliceVal)
		st.assume(Eq(r.Len, BVAdd(dst.Len, n)))
		r.Nil = False()
		return r, true
	case "strconv.Itoa", "strconv.FormatInt", "strconv.FormatUint":
		return fx.Fresh(types.Typ[types.String], "itoa"), true
	case "strconv.ParseInt", "strconv.ParseUint", "strconv.ParseFloat":
		// uninterpreted functions of the string contents (same bytes => same answers); see specParse* builtins
		sv, ok := args[0].(StringVal)
		if !ok {
			return fx.Fresh(x.Type(), "parse"), true
		}
		kind := strings.TrimPrefix(callee.Name(), "Parse")
		okT, valT, rngT := fx.strconvSyms(st, kind, sv.Base, sv.Off, sv.Len)
		var v Value = valT
		if kind == "Float" {
			v = FPFromBits(valT)
		}
		return TupleVal{v, IfaceVal{Nil: okT, T: nil, Aux: &rngT}}, true
	case "reflect.ValueOf":
		return fx.Fresh(x.Type(), "reflect"), true
	case "sync.(*WaitGroup).Add", "sync.(*WaitGroup).Done", "sync.(*WaitGroup).Wait", "sync.(*Once).Do",
		"sync.(*Pool).Put", "sync.(*Mutex).Lock", "sync.(*Mutex).Unlock":
		return nil, true
	case "sync/atomic.AddUint64":
		p := st.ptr(x.Call.Args[0], x.Pos(), "atomic")
		old := st.Load(p, nil).(Term)
		nv := BVAdd(old, args[1].(Term))
		st.Store(p, nv)
		return nv, true
	case "bytes.(*Buffer).Len":
		r := fx.FreshSym("buflen", SBV64)
		st.assume(BVSle(i64(0), r))
		return r, true
	case "bytes.(*Buffer).Next":
		n := args[1].(Term)
		// bytes.Buffer.Next(n) returns min(n, Len()) bytes; panics only via slicing when n < 0
		site := fx.siteText(f.fn, x.Pos(), "call")
		st.oblige("safe", "safe#slice@"+site, BVSle(i64(0), n), x.Pos())
		st.assume(BVSle(i64(0), n))
		r := fx.Fresh(types.NewSlice(types.Typ[types.Uint8]), "next").(SliceVal)
		st.assume(BVSle(r.Len, n))
		return r, true
	case "bytes.NewBuffer":
		p := fx.Fresh(x.Type(), "bytesbuf").(PtrVal)
		p.Nil = False()
		return p, true
	case "bytes.(*Buffer).ReadByte":
		return TupleVal{fx.FreshSym("readbyte", SBV8), IfaceVal{Nil: fx.FreshSym("rberr", SBool)}}, true
	case "bytes.(*Buffer).Bytes":
		r := fx.Fresh(types.NewSlice(types.Typ[types.Uint8]), "bufbytes").(SliceVal)
		return r, true
	case "bytes.(*Buffer).WriteByte", "bytes.(*Buffer).Write":
		return fx.Fresh(x.Type(), "bufwrite"), true
	case "encoding/binary.ReadUvarint":
		v := fx.FreshSym("uvarint", SBV64)
		// assumptions on the result may be scoped to the calling function: extern NAME@CALLER ensures ...
		for _, key := range []string{name, name + "@" + funcKey(f.fn)} {
			for _, a := range fx.eng.externAssume[key] {
				env := &SpecEnv{fx: fx, st: st, vars: map[string]Value{"r0": v}, info: a.Info}
				st.assume(env.evalBool(a.Expr))
				fx.warn("assumed on %s: %s", key, a.Src)
			}
		}
		return TupleVal{v, IfaceVal{Nil: fx.FreshSym("uverr", SBool)}}, true
	}
	if strings.HasPrefix(name, "unsafe.") {
		return fx.Fresh(x.Type(), "unsafe"), true
	}
	return nil, false
}

func (st *State) havocArr(base PtrVal) {
	a := st.baseArr(base)
	st.Store(base, ArrayVal{Arr: st.fx.FreshSym("hvarr", a.Arr.So), ElemT: a.ElemT, Opaque: a.Opaque})
}

// mapHas: membership of a key in a map as an uninterpreted predicate of (map identity, key contents):
// the same map and the same key bytes always give the same answer.
func (fx *FuncCtx) mapHas(st *State, m MapVal, key Value) Term {
	var ks string
	switch k := key.(type) {
	case StringVal:
		ks = st.baseArr(k.Base).Arr.S + "|" + k.Off.S + "|" + k.Len.S
	case SliceVal:
		ks = st.baseArr(k.Base).Arr.S + "|" + k.Off.S + "|" + k.Len.S
	case Term:
		ks = k.S
	default:
		return fx.FreshSym("mapok", SBool)
	}
	id := fmt.Sprintf("maphas|%d|%s", m.ID, ks)
	if fx.mapHasSyms == nil {
		fx.mapHasSyms = map[string]Term{}
	}
	if t, ok := fx.mapHasSyms[id]; ok {
		return t
	}
	t := fx.FreshSym("maphas", SBool)
	fx.mapHasSyms[id] = t
	return t
}

// strconvSyms returns (ok, value bits, isRangeError) of strconv.Parse{Int,Uint,Float} applied to the given
// bytes, as symbols that are a function of (kind, array, offset, length).
func (fx *FuncCtx) strconvSyms(st *State, kind string, base PtrVal, off, ln Term) (Term, Term, Term) {
	arr := st.baseArr(base).Arr
	key := "strconv|" + kind + "|" + arr.S + "|" + off.S + "|" + ln.S
	if fx.uninterp == nil {
		fx.uninterp = map[string][]Term{}
	}
	if ts, ok := fx.uninterp[key]; ok {
		return ts[0], ts[1], ts[2]
	}
	// genuine uninterpreted functions of (array, offset, length): congruence is the solver's business
	args := arr.S + " " + off.S + " " + ln.S
	okT := Term{S: "(strconv_" + kind + "_ok " + args + ")", So: SBool}
	valT := Term{S: "(strconv_" + kind + "_val " + args + ")", So: SBV64}
	rngT := Term{S: "(strconv_" + kind + "_range " + args + ")", So: SBool}
	if boundRe.MatchString(args) {
		// application over a bound variable (inside a quantified contract instance): no global axiom possible
		fx.uninterp[key] = []Term{okT, valT, rngT}
		return okT, valT, rngT
	}
	// a range error is an error; a successful ParseFloat result is finite
	fx.axiomAlways(Implies(rngT, Not(okT)))
	if kind == "Int" || kind == "Uint" {
		// assumed contract of strconv.ParseInt/ParseUint(s, 10, 64): success implies decimal syntax
		// (an optional sign for ParseInt only, then one or more digits)
		fx.symID++
		j := Sym(fmt.Sprintf("j!b%d", fx.symID), SBV64)
		digit := func(c Term) Term { return And(BVUle(BVConst(8, '0'), c), BVUle(c, BVConst(8, '9'))) }
		first := Select(arr, off)
		lo := i64(0)
		syn := BVSle(i64(1), ln)
		if kind == "Int" {
			lo = i64(1)
			sign := Or(Eq(first, BVConst(8, '+')), Eq(first, BVConst(8, '-')))
			syn = And(syn, Or(digit(first), And(sign, BVSle(i64(2), ln))))
		}
		all := Forall([]Term{j}, Implies(And(BVSle(lo, j), BVSlt(j, ln)), digit(Select(arr, BVAdd(off, j)))))
		fx.axiomAlways(Implies(Or(okT, rngT), And(syn, all)))
	}
	if kind == "Float" {
		fx.axiomAlways(Implies(okT, Not(Term{S: "(fp.isInfinite " + FPFromBits(valT).S + ")", So: SBool})))
		fx.axiomAlways(Implies(okT, Not(Term{S: "(fp.isNaN " + FPFromBits(valT).S + ")", So: SBool})))
	}
	fx.uninterp[key] = []Term{okT, valT, rngT}
	return okT, valT, rngT
}

// float64bits: the IEEE bit pattern of a float term, as a symbol that is a function of the term (same float
// term, same bits symbol) constrained by to_fp(bits) = f.
func (fx *FuncCtx) float64bits(f Term) Term {
	if fx.f64bits == nil {
		fx.f64bits = map[string]Term{}
	}
	if b, ok := fx.f64bits[f.S]; ok {
		return b
	}
	save := fx.curSite
	fx.curSite = ""
	b := fx.FreshSym("f64bits", SBV64)
	fx.curSite = save
	fx.axiom(StructEq(FPFromBits(b), f))
	fx.f64bits[f.S] = b
	return b
}
