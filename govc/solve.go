package main

// VC emission (SMT-LIB2) and solver orchestration.

import (
	"bytes"
	"context"
	"crypto/sha1"
	"fmt"
	"os"
	"os/exec"
	"path/filepath"
	"regexp"
	"sort"
	"strings"
	"sync"
	"time"
)

var symRe = regexp.MustCompile(`[A-Za-z_][A-Za-z0-9_.]*![0-9]+`)

func symsOf(s string, into map[string]bool) {
	for _, m := range symRe.FindAllString(s, -1) {
		into[m] = true
	}
}

type axiomInfo struct {
	t    Term
	syms []string
}

// vcText builds the SMT-LIB script for one obligation instance.
func vcText(fr *FuncResult, ax []axiomInfo, o *Obligation, model bool) string {
	used := map[string]bool{}
	for _, h := range o.Hyps {
		symsOf(h.S, used)
	}
	symsOf(o.Goal.S, used)
	// relevant axioms (fixpoint)
	picked := make([]bool, len(ax))
	for changed := true; changed; {
		changed = false
		for i, a := range ax {
			if picked[i] {
				continue
			}
			hit := false
			for _, s := range a.syms {
				if used[s] {
					hit = true
					break
				}
			}
			if hit {
				picked[i] = true
				changed = true
				for _, s := range a.syms {
					used[s] = true
				}
			}
		}
	}
	var b strings.Builder
	if model {
		b.WriteString("(set-option :produce-models true)\n")
	}
	b.WriteString("(set-logic ALL)\n")
	arr8 := "(Array (_ BitVec 64) (_ BitVec 8))"
	all := o.Goal.S
	for _, h := range o.Hyps {
		all += h.S
	}
	// axioms about uninterpreted strconv applications that occur in the VC
	for i, a := range ax {
		if !picked[i] && strings.Contains(a.t.S, "(strconv_") {
			// pick it if its application term occurs in the VC text
			if idx := strings.Index(a.t.S, "(strconv_"); idx >= 0 {
				app := balanced(a.t.S[idx:])
				core := app[strings.Index(app, " "):]
				if strings.Contains(all, core) {
					picked[i] = true
					symsOf(a.t.S, used)
				}
			}
		}
	}
	for i, a := range ax {
		if picked[i] {
			all += a.t.S
		}
	}
	for _, k := range []string{"Int", "Uint", "Float"} {
		if strings.Contains(all, "(strconv_"+k+"_") {
			fmt.Fprintf(&b, "(declare-fun strconv_%s_ok (%s (_ BitVec 64) (_ BitVec 64)) Bool)\n", k, arr8)
			fmt.Fprintf(&b, "(declare-fun strconv_%s_val (%s (_ BitVec 64) (_ BitVec 64)) (_ BitVec 64))\n", k, arr8)
			fmt.Fprintf(&b, "(declare-fun strconv_%s_range (%s (_ BitVec 64) (_ BitVec 64)) Bool)\n", k, arr8)
		}
	}
	for name, d := range fr.UFDecls {
		if strings.Contains(all, "("+name+" ") {
			b.WriteString(d + "\n")
		}
	}
	usesBytesEq := false
	for _, h := range o.Hyps {
		if strings.Contains(h.S, "bytes_eq") {
			usesBytesEq = true
		}
	}
	if strings.Contains(o.Goal.S, "bytes_eq") {
		usesBytesEq = true
	}
	if usesBytesEq {
		b.WriteString("(declare-fun bytes_eq ((Array (_ BitVec 64) (_ BitVec 8)) (_ BitVec 64) (Array (_ BitVec 64) (_ BitVec 8)) (_ BitVec 64) (_ BitVec 64)) Bool)\n")
	}
	for _, name := range fr.DeclOrd {
		if used[name] {
			fmt.Fprintf(&b, "(declare-const %s %s)\n", name, fr.Decls[name])
		}
	}
	for _, d := range o.ExtraDecls {
		b.WriteString(d + "\n")
	}
	for i, a := range ax {
		if picked[i] {
			fmt.Fprintf(&b, "(assert %s)\n", a.t.S)
		}
	}
	for _, h := range o.Hyps {
		fmt.Fprintf(&b, "(assert %s)\n", h.S)
	}
	fmt.Fprintf(&b, "(assert (not %s))\n", o.Goal.S)
	b.WriteString("(check-sat)\n")
	if model {
		b.WriteString("(get-model)\n")
	}
	return b.String()
}

type solveResult struct {
	Status string // unsat | sat | unknown
	Solver string
	Time   float64
	Model  string
	Weak   bool // model comes from the ground-instantiated VC (candidate only)
}

type Solver struct {
	scratch string
	timeout time.Duration
	cache   sync.Map
	sem     chan struct{}
	nfile   int
	mu      sync.Mutex
	tier    string
	replayDir string
	replayMu  sync.Mutex
}

func newSolver(scratch string, timeout time.Duration, par int, tier string) *Solver {
	return &Solver{scratch: scratch, timeout: timeout, sem: make(chan struct{}, par), tier: tier}
}

func runOne(ctx context.Context, name string, args []string, file string) (string, string) {
	cmd := exec.CommandContext(ctx, name, append(args, file)...)
	var out bytes.Buffer
	cmd.Stdout = &out
	cmd.Stderr = &out
	cmd.Run()
	s := out.String()
	first := strings.TrimSpace(strings.SplitN(s, "\n", 2)[0])
	switch first {
	case "sat", "unsat", "unknown":
		return first, s
	}
	return "unknown", s
}

// solve decides one VC by racing z3-new and cvc5 (z3 4.8 joins when both give up).
func (sv *Solver) solve(text string, timeout time.Duration) solveResult {
	h := sha1.Sum([]byte(text))
	key := fmt.Sprintf("%x-%d", h, int(timeout.Seconds()))
	if r, ok := sv.cache.Load(key); ok {
		return r.(solveResult)
	}
	sv.sem <- struct{}{}
	defer func() { <-sv.sem }()
	sv.mu.Lock()
	sv.nfile++
	nf := sv.nfile
	sv.mu.Unlock()
	file := filepath.Join(sv.scratch, fmt.Sprintf("%s.%d.smt2", key, nf))
	os.WriteFile(file, []byte(text), 0o644)
	defer os.Remove(file)
	secs := int(timeout.Seconds())
	if secs < 1 {
		secs = 1
	}
	type cand struct {
		name string
		bin  string
		args []string
	}
	quick := []cand{
		{"z3-new", "z3-new", []string{"-T:1"}},
		{"cvc5", "cvc5", []string{"--tlimit=1000", "--produce-models"}},
		{"cvc5-enum", "cvc5", []string{"--tlimit=1000", "--produce-models", "--enum-inst"}},
	}
	full := []cand{
		{"z3-new", "z3-new", []string{fmt.Sprintf("-T:%d", secs)}},
		{"z3-new-intblast", "z3-new", []string{fmt.Sprintf("-T:%d", secs), "smt.bv.solver=2"}},
		{"cvc5", "cvc5", []string{fmt.Sprintf("--tlimit=%d", secs*1000), "--produce-models"}},
		{"cvc5-bvasint", "cvc5", []string{fmt.Sprintf("--tlimit=%d", secs*1000), "--produce-models", "--solve-bv-as-int=sum"}},
		{"cvc5-enum", "cvc5", []string{fmt.Sprintf("--tlimit=%d", secs*1000), "--produce-models", "--enum-inst"}},
		{"z3", "z3", []string{fmt.Sprintf("-T:%d", secs)}},
	}
	race := func(cs []cand, to time.Duration) solveResult {
		ctx, cancel := context.WithTimeout(context.Background(), to+2*time.Second)
		defer cancel()
		ch := make(chan solveResult, len(cs))
		for _, c := range cs {
			go func(c cand) {
				t0 := time.Now()
				st, out := runOne(ctx, c.bin, c.args, file)
				r := solveResult{Status: st, Solver: c.name, Time: time.Since(t0).Seconds()}
				if st == "sat" {
					r.Model = out
				}
				ch <- r
			}(c)
		}
		res := solveResult{Status: "unknown"}
		for range cs {
			r := <-ch
			if r.Status == "sat" || r.Status == "unsat" {
				cancel()
				return r
			}
			if r.Time > res.Time {
				res.Time = r.Time
			}
		}
		return res
	}
	res := race(quick, time.Second)
	if res.Status == "unknown" && timeout > time.Second {
		r2 := race(full, timeout)
		if r2.Status != "unknown" {
			res = r2
		} else {
			res.Time += r2.Time
		}
	}
	sv.cache.Store(key, res)
	return res
}

var quantHypRe = regexp.MustCompile(`\((forall|exists) `)

// solveCanary checks reachability: sat expected. Quantified hypotheses are dropped on a retry
// (finding a model of a quantified formula is what solvers are worst at).
func (sv *Solver) solveCanary(fr *FuncResult, ax []axiomInfo, o *Obligation) solveResult {
	res := sv.solve(vcText(fr, ax, o, false), 2*time.Second)
	if res.Status != "unknown" {
		return res
	}
	o2 := *o
	o2.Hyps = nil
	for _, h := range o.Hyps {
		if !quantHypRe.MatchString(h.S) {
			o2.Hyps = append(o2.Hyps, h)
		}
	}
	return sv.solve(vcText(fr, ax, &o2, false), sv.timeout)
}

// solveObl: quantifier-free VCs go straight to the solvers. VCs with quantified hypotheses are first
// tried in ground-instantiated form (instances are consequences, so unsat there is a proof); if that is
// sat the full VC is tried; if the full VC is not proved the instantiated model is the candidate counterexample.
func (sv *Solver) solveObl(fr *FuncResult, ax []axiomInfo, o *Obligation, text string) solveResult {
	g, ok := groundVersion(o, nil)
	if !ok {
		return sv.solve(text, sv.timeout)
	}
	// (a) drop quantified hypotheses altogether: fewer assumptions, so unsat is still a proof
	o0 := *o
	o0.Hyps = nil
	for _, h := range o.Hyps {
		if !quantHypRe.MatchString(h.S) {
			o0.Hyps = append(o0.Hyps, h)
		}
	}
	if r0 := sv.solve(vcText(fr, ax, &o0, false), 3*time.Second); r0.Status == "unsat" {
		r0.Solver += "+noquant"
		return r0
	}
	gres := sv.solve(vcText(fr, ax, g, true), sv.timeout)
	if gres.Status == "unsat" {
		gres.Solver += "+inst"
		return gres
	}
	ft := sv.timeout
	if gres.Status == "sat" && ft > 5*time.Second {
		ft = 5 * time.Second
	}
	full := sv.solve(text, ft)
	if full.Status == "unsat" || full.Status == "sat" {
		return full
	}
	if gres.Status == "sat" {
		gres.Solver += "+inst"
		gres.Weak = true
		gres.Time += full.Time
		return gres
	}
	full.Time += gres.Time
	return full
}

// OblResult aggregates all path instances of one named obligation.
type OblResult struct {
	Name      string   `json:"name"`
	Kind      string   `json:"kind"`
	Props     []string `json:"props,omitempty"`
	Status    string   `json:"status"` // discharged | failed | undecided | canary-ok | vacuous
	Instances int      `json:"instances"`
	Trivial   int      `json:"trivial"`
	Solvers   []string `json:"solvers,omitempty"`
	Time      float64  `json:"time_s"`
	Pos       string   `json:"pos,omitempty"`
	Model     string   `json:"model,omitempty"`
	VCBytes   int      `json:"vc_bytes"`
	FailPath  int      `json:"fail_path,omitempty"`
	Canary    bool     `json:"canary,omitempty"`
	Replay    string   `json:"replay_test,omitempty"`
	ReplayErr string   `json:"replay_note,omitempty"`
	failOb    *Obligation
	WeakModel bool     `json:"candidate_model_from_instantiation,omitempty"`
}

func (sv *Solver) decide(fr *FuncResult) []*OblResult {
	var ax []axiomInfo
	for _, a := range fr.Axioms {
		m := map[string]bool{}
		symsOf(a.S, m)
		var ss []string
		for s := range m {
			ss = append(ss, s)
		}
		ax = append(ax, axiomInfo{t: a, syms: ss})
	}
	groups := map[string][]*Obligation{}
	var order []string
	// conjunctive goals are decided conjunct by conjunct (same hypotheses): much easier for the solvers
	var split []*Obligation
	for _, o := range fr.Obls {
		if o.Canary || !(strings.HasPrefix(o.Goal.S, "(and ") || strings.HasPrefix(o.Goal.S, "(=> ")) {
			split = append(split, o)
			continue
		}
		t := parseSx(o.Goal.S)
		parts := flattenAnd(t, 8)
		if len(parts) < 2 || len(parts) > 24 {
			split = append(split, o)
			continue
		}
		for _, pt := range parts {
			c := *o
			c.Goal = Term{S: pt.String(), So: SBool}
			split = append(split, &c)
		}
	}
	for _, o := range split {
		if _, ok := groups[o.Name]; !ok {
			order = append(order, o.Name)
		}
		groups[o.Name] = append(groups[o.Name], o)
	}
	results := make([]*OblResult, len(order))
	var wg sync.WaitGroup
	for gi, name := range order {
		obs := groups[name]
		r := &OblResult{Name: name, Kind: obs[0].Kind, Props: obs[0].Props, Instances: len(obs), Pos: obs[0].Pos, Canary: obs[0].Canary}
		results[gi] = r
		wg.Add(1)
		go func(r *OblResult, obs []*Obligation) {
			defer wg.Done()
			var mu sync.Mutex
			var iwg sync.WaitGroup
			solvers := map[string]bool{}
			anySat, anyUnknown, allUnsat := false, false, true
			for _, o := range obs {
				if !o.Canary && o.Goal.BC != nil && *o.Goal.BC {
					mu.Lock()
					r.Trivial++
					mu.Unlock()
					continue
				}
				iwg.Add(1)
				go func(o *Obligation) {
					defer iwg.Done()
					if r.Canary {
						mu.Lock()
						done := anySat
						mu.Unlock()
						if done {
							return
						}
					}
					text := vcText(fr, ax, o, true)
					var res solveResult
					if r.Canary {
						res = sv.solveCanary(fr, ax, o)
					} else {
						res = sv.solveObl(fr, ax, o, text)
					}
					mu.Lock()
					defer mu.Unlock()
					if len(text) > r.VCBytes {
						r.VCBytes = len(text)
					}
					r.Time += res.Time
					if res.Solver != "" {
						solvers[res.Solver] = true
					}
					switch res.Status {
					case "sat":
						allUnsat = false
						if !anySat {
							anySat = true
							r.Model = trimModel(res.Model)
							r.WeakModel = res.Weak
							r.FailPath = o.PathID
							r.failOb = o
							if o.Pos != "" {
								r.Pos = o.Pos
							}
						}
					case "unknown":
						allUnsat = false
						anyUnknown = true
					}
				}(o)
			}
			iwg.Wait()
			for s := range solvers {
				r.Solvers = append(r.Solvers, s)
			}
			sort.Strings(r.Solvers)
			if r.Canary {
				if anySat {
					r.Status = "canary-ok"
					r.Model = ""
				} else if anyUnknown {
					r.Status = "canary-undecided"
				} else {
					r.Status = "vacuous"
				}
				return
			}
			if anySat && sv.replayDir != "" && r.failOb != nil && !r.Canary {
				r.Replay, r.ReplayErr = sv.buildReplay(fr, ax, r.failOb, sv.replayDir)
			}
			switch {
			case anySat:
				r.Status = "failed"
			case anyUnknown:
				r.Status = "undecided"
			case allUnsat:
				r.Status = "discharged"
			}
		}(r, obs)
	}
	wg.Wait()
	return results
}

func trimModel(m string) string {
	if len(m) > 20000 {
		return m[:20000] + "\n...(truncated)"
	}
	return m
}

// balanced returns the prefix of s that is one balanced s-expression.
func balanced(s string) string {
	d := 0
	for i, c := range s {
		switch c {
		case '(':
			d++
		case ')':
			d--
			if d == 0 {
				return s[:i+1]
			}
		}
	}
	return s
}

func flattenAnd(n *sx, depth int) []*sx {
	if n != nil && n.kids != nil && n.head() == "=>" && len(n.kids) == 3 && depth > 0 {
		// (=> A (and B C)) splits into (=> A B), (=> A C)
		cs := flattenAnd(n.kids[2], depth)
		if len(cs) > 1 {
			var out []*sx
			for _, c := range cs {
				out = append(out, &sx{kids: []*sx{{atom: "=>"}, n.kids[1], c}})
			}
			return out
		}
		return []*sx{n}
	}
	if n != nil && n.kids != nil && n.head() == "and" && depth > 0 {
		var out []*sx
		for _, k := range n.kids[1:] {
			out = append(out, flattenAnd(k, depth-1)...)
		}
		return out
	}
	return []*sx{n}
}
