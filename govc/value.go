package main

// Symbolic values and the heap model.

import (
	"fmt"
	"go/types"
)

type Value interface{}

// Object is a heap cell (a struct, a scalar box, or an array = backing store of slices).
type Object struct {
	id   int
	T    types.Type // type of the value stored in the object
	Name string
	Init Value // initial (symbolic) contents for lazily materialised objects; nil => must be in heap
}

type PathElem struct {
	Field int  // field index, or -1
	Idx   Term // element index (BV64) when Field == -1
}

type LazyCell struct {
	T   types.Type // pointee type
	obj *Object
	nm  string
}

// PtrVal is a pointer: either to a location inside an object, or lazy (unknown pointee, materialised on deref).
type PtrVal struct {
	Obj  *Object
	Path []PathElem
	Lazy *LazyCell
	Nil  Term // Bool: pointer is nil
	Elem types.Type
}

type StructVal struct {
	Fields []Value
	T      types.Type
}

// ArrayVal is an SMT array holding a Go array's (or slice backing store's) elements.
type ArrayVal struct {
	Arr    Term
	ElemT  types.Type
	Opaque bool // element type is not representable; reads yield fresh values
}

type SliceVal struct {
	Base          PtrVal // pointer to the backing array location
	Off, Len, Cap Term   // BV64
	Nil           Term   // Bool
	ElemT         types.Type
}

type StringVal struct {
	Base     PtrVal
	Off, Len Term
}

type IfaceVal struct {
	Nil Term
	T   types.Type
	Aux *Term // for error values from strconv: errors.Is(err, strconv.ErrRange)
}

type MapVal struct {
	Len Term
	ID  int
	T   types.Type
}

type OpaqueVal struct {
	T    types.Type
	Desc string
}

type TupleVal []Value

func (p PtrVal) extend(e PathElem) PtrVal {
	np := make([]PathElem, len(p.Path)+1)
	copy(np, p.Path)
	np[len(p.Path)] = e
	return PtrVal{Obj: p.Obj, Path: np, Lazy: p.Lazy, Nil: False()}
}

func isOpaqueElem(t types.Type) bool {
	_, ok := sortOfType(t)
	return !ok
}

// sortOfType gives the SMT sort of a scalar/array Go type.
func sortOfType(t types.Type) (Sort, bool) {
	switch u := t.Underlying().(type) {
	case *types.Basic:
		switch u.Kind() {
		case types.Bool, types.UntypedBool:
			return SBool, true
		case types.Int, types.Int64, types.Uint, types.Uint64, types.Uintptr, types.UntypedInt, types.UnsafePointer:
			return SBV64, true
		case types.Int32, types.Uint32, types.UntypedRune:
			return SBV32, true
		case types.Int16, types.Uint16:
			return BV(16), true
		case types.Int8, types.Uint8:
			return SBV8, true
		case types.Float64, types.UntypedFloat:
			return SFP, true
		}
	case *types.Array:
		es, ok := sortOfType(u.Elem())
		if ok {
			return ArrOf(es), true
		}
	}
	return Sort{}, false
}

func isSignedType(t types.Type) bool {
	if b, ok := t.Underlying().(*types.Basic); ok {
		return b.Info()&types.IsInteger != 0 && b.Info()&types.IsUnsigned == 0
	}
	return false
}

func isIntType(t types.Type) bool {
	if b, ok := t.Underlying().(*types.Basic); ok {
		return b.Info()&types.IsInteger != 0 || b.Kind() == types.UnsafePointer
	}
	return false
}
func isFloatType(t types.Type) bool {
	if b, ok := t.Underlying().(*types.Basic); ok {
		return b.Info()&types.IsFloat != 0
	}
	return false
}
func isStringType(t types.Type) bool {
	if b, ok := t.Underlying().(*types.Basic); ok {
		return b.Info()&types.IsString != 0
	}
	return false
}

const maxSliceLog = 47 // slices are assumed shorter than 2^47 elements

// Fresh builds a fresh symbolic value of type t; type invariants go to fx.axioms.
func (fx *FuncCtx) Fresh(t types.Type, hint string) Value {
	switch u := t.Underlying().(type) {
	case *types.Basic:
		if isStringType(t) {
			o := fx.newObject(types.NewArray(types.Typ[types.Uint8], 0), hint+".str")
			o.Init = ArrayVal{Arr: fx.FreshSym(hint+".sdata", ArrOf(SBV8)), ElemT: types.Typ[types.Uint8]}
			l := fx.FreshSym(hint+".slen", SBV64)
			fx.axiom(And(BVSle(BVConst(64, 0), l), BVSlt(l, BVConstU(64, 1<<maxSliceLog))))
			return StringVal{Base: PtrVal{Obj: o, Nil: False()}, Off: BVConst(64, 0), Len: l}
		}
		if so, ok := sortOfType(t); ok {
			return fx.FreshSym(hint, so)
		}
		return OpaqueVal{T: t, Desc: hint}
	case *types.Struct:
		sv := StructVal{T: t}
		for i := 0; i < u.NumFields(); i++ {
			sv.Fields = append(sv.Fields, fx.Fresh(u.Field(i).Type(), hint+"."+u.Field(i).Name()))
		}
		return sv
	case *types.Array:
		if so, ok := sortOfType(t); ok {
			return ArrayVal{Arr: fx.FreshSym(hint, so), ElemT: u.Elem()}
		}
		return ArrayVal{Arr: fx.FreshSym(hint, ArrOf(SBV64)), ElemT: u.Elem(), Opaque: true}
	case *types.Slice:
		et := u.Elem()
		o := fx.newObject(types.NewArray(et, 0), hint+".data")
		if so, ok := sortOfType(et); ok {
			o.Init = ArrayVal{Arr: fx.FreshSym(hint+".arr", ArrOf(so)), ElemT: et}
		} else {
			o.Init = ArrayVal{Arr: fx.FreshSym(hint+".arr", ArrOf(SBV64)), ElemT: et, Opaque: true}
		}
		l := fx.FreshSym(hint+".len", SBV64)
		c := fx.FreshSym(hint+".cap", SBV64)
		n := fx.FreshSym(hint+".isnil", SBool)
		fx.axiom(And(BVSle(BVConst(64, 0), l), BVSle(l, c), BVSlt(c, BVConstU(64, 1<<maxSliceLog)),
			Implies(n, Eq(c, BVConst(64, 0)))))
		return SliceVal{Base: PtrVal{Obj: o, Nil: False()}, Off: BVConst(64, 0), Len: l, Cap: c, Nil: n, ElemT: et}
	case *types.Pointer:
		return PtrVal{Lazy: &LazyCell{T: u.Elem(), nm: hint}, Nil: fx.FreshSym(hint+".isnil", SBool), Elem: u.Elem()}
	case *types.Interface:
		return IfaceVal{Nil: fx.FreshSym(hint+".isnil", SBool), T: t}
	case *types.Map:
		l := fx.FreshSym(hint+".maplen", SBV64)
		fx.axiom(And(BVSle(BVConst(64, 0), l), BVSlt(l, BVConstU(64, 1<<maxSliceLog))))
		fx.mapID++
		return MapVal{Len: l, ID: fx.mapID, T: t}
	}
	return OpaqueVal{T: t, Desc: hint}
}

// Zero builds the zero value of type t.
func (fx *FuncCtx) Zero(t types.Type) Value {
	switch u := t.Underlying().(type) {
	case *types.Basic:
		if isStringType(t) {
			o := fx.newObject(types.NewArray(types.Typ[types.Uint8], 0), "emptystr")
			o.Init = ArrayVal{Arr: ConstArr(SBV8, BVConst(8, 0)), ElemT: types.Typ[types.Uint8]}
			return StringVal{Base: PtrVal{Obj: o, Nil: False()}, Off: BVConst(64, 0), Len: BVConst(64, 0)}
		}
		so, ok := sortOfType(t)
		if !ok {
			return OpaqueVal{T: t}
		}
		switch so.K {
		case KBool:
			return False()
		case KFP:
			return FPConstBits(0)
		default:
			return BVConst(so.W, 0)
		}
	case *types.Struct:
		sv := StructVal{T: t}
		for i := 0; i < u.NumFields(); i++ {
			sv.Fields = append(sv.Fields, fx.Zero(u.Field(i).Type()))
		}
		return sv
	case *types.Array:
		if so, ok := sortOfType(u.Elem()); ok {
			z := fx.Zero(u.Elem())
			if zt, ok := z.(Term); ok {
				return ArrayVal{Arr: ConstArr(so, zt), ElemT: u.Elem()}
			}
			if za, ok := z.(ArrayVal); ok {
				return ArrayVal{Arr: ConstArr(so, za.Arr), ElemT: u.Elem()}
			}
		}
		return ArrayVal{Arr: fx.FreshSym("zeroarr", ArrOf(SBV64)), ElemT: u.Elem(), Opaque: true}
	case *types.Slice:
		o := fx.newObject(types.NewArray(u.Elem(), 0), "nilslice")
		if so, ok := sortOfType(u.Elem()); ok {
			o.Init = ArrayVal{Arr: fx.FreshSym("nilslice.arr", ArrOf(so)), ElemT: u.Elem()}
		} else {
			o.Init = ArrayVal{Arr: fx.FreshSym("nilslice.arr", ArrOf(SBV64)), ElemT: u.Elem(), Opaque: true}
		}
		return SliceVal{Base: PtrVal{Obj: o, Nil: False()}, Off: BVConst(64, 0), Len: BVConst(64, 0), Cap: BVConst(64, 0), Nil: True(), ElemT: u.Elem()}
	case *types.Pointer:
		return PtrVal{Nil: True(), Elem: u.Elem()}
	case *types.Interface:
		return IfaceVal{Nil: True(), T: t}
	case *types.Map:
		fx.mapID++
		return MapVal{Len: BVConst(64, 0), ID: fx.mapID, T: t}
	}
	return OpaqueVal{T: t, Desc: "zero"}
}

func (fx *FuncCtx) newObject(t types.Type, name string) *Object {
	fx.objID++
	return &Object{id: fx.objID, T: t, Name: fmt.Sprintf("%s#%d", name, fx.objID)}
}

// materialise resolves a lazy pointer to its (unique) object.
func (fx *FuncCtx) materialise(p PtrVal) PtrVal {
	if p.Obj != nil || p.Lazy == nil {
		return p
	}
	if p.Lazy.obj == nil {
		o := fx.newObject(p.Lazy.T, p.Lazy.nm+".pointee")
		o.Init = fx.Fresh(p.Lazy.T, "*"+p.Lazy.nm)
		p.Lazy.obj = o
	}
	return PtrVal{Obj: p.Lazy.obj, Path: p.Path, Nil: p.Nil, Elem: p.Elem, Lazy: p.Lazy}
}

func (st *State) objValue(o *Object) Value {
	if v, ok := st.heap[o]; ok {
		return v
	}
	if o.Init == nil {
		panic("object without contents: " + o.Name)
	}
	return o.Init
}

// Load reads the value at pointer p (must be materialised and non-nil; the caller emits the nil obligation).
func (st *State) Load(p PtrVal, t types.Type) Value {
	p = st.fx.materialise(p)
	if p.Obj == nil {
		return st.fx.Fresh(t, "nilderef")
	}
	v := st.objValue(p.Obj)
	for _, e := range p.Path {
		v = st.fx.project(v, e)
	}
	if len(p.Path) == 1 && p.Path[0].Field < 0 && st.fx.factObjs[p.Obj] != nil {
		// a read of a table that is abstracted by table facts: the facts hold at this index
		// (path-local assumption: a function-wide axiom per read site would be carried by every VC of the function)
		for _, inst := range st.fx.tableInstanceNoDedupe(p.Obj, p.Path[0].Idx) {
			st.assume(inst)
		}
	}
	return v
}

func (fx *FuncCtx) project(v Value, e PathElem) Value {
	switch x := v.(type) {
	case StructVal:
		if e.Field < 0 {
			panic("index into struct")
		}
		return x.Fields[e.Field]
	case ArrayVal:
		if e.Field >= 0 {
			panic("field of array")
		}
		if x.Opaque {
			v := fx.Fresh(x.ElemT, "elem")
			fx.assumeTypeInv(v, x.ElemT)
			return v
		}
		r := Select(x.Arr, e.Idx)
		if r.So.K == KArr {
			return ArrayVal{Arr: r, ElemT: x.ElemT.Underlying().(*types.Array).Elem()}
		}
		return r
	case OpaqueVal:
		return OpaqueVal{T: nil, Desc: "proj of opaque"}
	}
	panic(fmt.Sprintf("project: unexpected value %T", v))
}

func (fx *FuncCtx) inject(v Value, path []PathElem, nv Value) Value {
	if len(path) == 0 {
		return nv
	}
	e := path[0]
	switch x := v.(type) {
	case StructVal:
		nf := make([]Value, len(x.Fields))
		copy(nf, x.Fields)
		nf[e.Field] = fx.inject(x.Fields[e.Field], path[1:], nv)
		return StructVal{Fields: nf, T: x.T}
	case ArrayVal:
		if x.Opaque {
			return x
		}
		var inner Value
		if len(path) > 1 {
			inner = fx.inject(fx.project(x, e), path[1:], nv)
		} else {
			inner = nv
		}
		switch iv := inner.(type) {
		case Term:
			if !x.Arr.So.Elem.Eq(iv.So) {
				panic(fmt.Sprintf("inject: elem sort mismatch %s vs %s", x.Arr.So.Elem, iv.So))
			}
			return ArrayVal{Arr: Store(x.Arr, e.Idx, iv), ElemT: x.ElemT}
		case ArrayVal:
			return ArrayVal{Arr: Store(x.Arr, e.Idx, iv.Arr), ElemT: x.ElemT}
		}
		panic(fmt.Sprintf("inject: cannot store %T into array", inner))
	case OpaqueVal:
		return x
	}
	panic(fmt.Sprintf("inject: unexpected value %T", v))
}

func (st *State) Store(p PtrVal, nv Value) {
	p = st.fx.materialise(p)
	if p.Obj == nil {
		return
	}
	st.logWrite(p)
	st.heap[p.Obj] = st.fx.inject(st.objValue(p.Obj), p.Path, nv)
}

// sliceArr returns the current SMT array behind a slice or string base pointer.
func (st *State) baseArr(base PtrVal) ArrayVal {
	v := st.Load(base, nil)
	if a, ok := v.(ArrayVal); ok {
		return a
	}
	panic(fmt.Sprintf("baseArr: base is %T", v))
}

func samePtr(a, b PtrVal) (same bool, known bool) {
	if a.Obj == nil || b.Obj == nil {
		if a.Lazy != nil && b.Lazy != nil && a.Lazy == b.Lazy && len(a.Path) == len(b.Path) {
			return true, true
		}
		return false, false
	}
	if a.Obj != b.Obj || len(a.Path) != len(b.Path) {
		return false, true
	}
	for i := range a.Path {
		if a.Path[i].Field != b.Path[i].Field {
			return false, true
		}
		if a.Path[i].Field < 0 && a.Path[i].Idx.S != b.Path[i].Idx.S {
			return false, false
		}
	}
	return true, true
}

// assumeTypeInv: a value of a struct element type read out of an opaque array satisfies the declared type invariant
// (an ASSUMPTION, reported with the trusted contracts).
func (fx *FuncCtx) assumeTypeInv(v Value, t types.Type) {
	n, ok := t.(*types.Named)
	if !ok {
		return
	}
	for _, ti := range fx.eng.typeInvs {
		if ti.Global != n.Obj().Name() {
			continue
		}
		st := &State{fx: fx, heap: map[*Object]Value{}, discover: &discoverCtx{}}
		env := &SpecEnv{fx: fx, st: st, vars: map[string]Value{"v": v}, info: ti.Info}
		fx.axiom(env.evalBool(ti.Cl.Expr))
		fx.warn("assumed type invariant %s#%s for an element read from a slice of %s", ti.Global, ti.Cl.Name, ti.Global)
	}
}
