package main

// Engine: loads /repo (tag verif) with go/packages, builds SSA, reads contracts.

import (
	"fmt"
	"go/ast"
	"go/token"
	"go/types"
	"os"
	"path/filepath"
	"strings"

	"golang.org/x/tools/go/ast/astutil"
	"golang.org/x/tools/go/packages"
	"golang.org/x/tools/go/ssa"
	"golang.org/x/tools/go/ssa/ssautil"
)

type Engine struct {
	fset         *token.FileSet
	pkg          *packages.Package
	tpkg         *types.Package
	pkgInfo      *types.Info
	prog         *ssa.Program
	spkg         *ssa.Package
	funcs        map[string]*ssa.Function
	contracts    []*Contract
	externRaw    [][2]string
	externAssume map[string][]ExternAssume
	specFuncs    map[string]*ast.FuncDecl
	globals      map[*ssa.Global]*globalInfo
	files        map[string]*ast.File
	repo         string
	contractFile string
	uninterpSpec map[string]bool
}

type globalInfo struct {
	lit      *ast.CompositeLit
	mutated  bool
	initVal  func(fx *FuncCtx) Value
	typ      types.Type
	constArr *Term
}

func loadEngine(repo string, tags string, contractPath string) (*Engine, error) {
	e := &Engine{repo: repo, funcs: map[string]*ssa.Function{}, specFuncs: map[string]*ast.FuncDecl{}, globals: map[*ssa.Global]*globalInfo{},
		files: map[string]*ast.File{}, externAssume: map[string][]ExternAssume{}, uninterpSpec: map[string]bool{}}
	cfg := &packages.Config{Mode: packages.LoadAllSyntax, Dir: repo, BuildFlags: []string{"-tags=" + tags}}
	cfg.Env = append(os.Environ(), "GOFLAGS=-mod=mod", "GOPROXY=off", "GOSUMDB=off", "GOTOOLCHAIN=local")
	if contractPath != "" {
		// the contract file lives outside the build? no: it is /repo/verif_contracts.go, already part of the package under the tag
	}
	pkgs, err := packages.Load(cfg, ".")
	if err != nil {
		return nil, err
	}
	if len(pkgs) != 1 {
		return nil, fmt.Errorf("expected one package, got %d", len(pkgs))
	}
	p := pkgs[0]
	if len(p.Errors) > 0 {
		return nil, fmt.Errorf("package errors: %v", p.Errors)
	}
	e.pkg = p
	e.fset = p.Fset
	e.tpkg = p.Types
	e.pkgInfo = p.TypesInfo
	prog, spkgs := ssautil.AllPackages(pkgs, ssa.GlobalDebug)
	prog.Build()
	e.prog = prog
	e.spkg = spkgs[0]
	for _, m := range e.spkg.Members {
		switch x := m.(type) {
		case *ssa.Function:
			e.funcs[x.Name()] = x
			for _, an := range x.AnonFuncs {
				e.funcs[an.Name()] = an
			}
		case *ssa.Type:
			for _, t := range []types.Type{x.Type(), types.NewPointer(x.Type())} {
				ms := prog.MethodSets.MethodSet(t)
				for i := 0; i < ms.Len(); i++ {
					fn := prog.MethodValue(ms.At(i))
					if fn == nil || fn.Synthetic != "" {
						continue
					}
					e.funcs[funcKey(fn)] = fn
					for _, an := range fn.AnonFuncs {
						e.funcs[funcKey(fn)+"$"+strings.TrimPrefix(an.Name(), fn.Name()+"$")] = an
					}
				}
			}
		}
	}
	var cfile *ast.File
	for i, f := range p.Syntax {
		name := p.CompiledGoFiles[i]
		e.files[name] = f
		if filepath.Base(name) == "verif_contracts.go" {
			cfile = f
			e.contractFile = name
			for _, d := range f.Decls {
				if fd, ok := d.(*ast.FuncDecl); ok && fd.Recv == nil && fd.Body != nil {
					e.specFuncs[fd.Name.Name] = fd
				}
			}
		}
	}
	e.scanGlobals()
	if cfile == nil {
		return nil, fmt.Errorf("verif_contracts.go not found in package (tags %s)", tags)
	}
	if err := e.loadContracts(cfile); err != nil {
		return nil, err
	}
	for _, ex := range e.externRaw {
		info := &types.Info{Types: map[ast.Expr]types.TypeAndValue{}, Uses: map[*ast.Ident]types.Object{}, Defs: map[*ast.Ident]types.Object{},
			Selections: map[*ast.SelectorExpr]*types.Selection{}, Instances: map[*ast.Ident]types.Instance{}}
		expr, err := e.checkExpr(ex[1], cfile.End(), []string{"r0 uint64"}, info, true)
		if err != nil {
			return nil, fmt.Errorf("extern %s: %v", ex[0], err)
		}
		e.externAssume[ex[0]] = append(e.externAssume[ex[0]], ExternAssume{Src: ex[1], Expr: expr, Info: info})
	}
	return e, nil
}

// scanGlobals records package-level variables with composite-literal initialisers
// and whether any function stores into them.
func (e *Engine) scanGlobals() {
	for _, f := range e.pkg.Syntax {
		for _, d := range f.Decls {
			gd, ok := d.(*ast.GenDecl)
			if !ok || gd.Tok != token.VAR {
				continue
			}
			for _, sp := range gd.Specs {
				vs := sp.(*ast.ValueSpec)
				for i, nm := range vs.Names {
					g, ok := e.spkg.Members[nm.Name].(*ssa.Global)
					if !ok {
						continue
					}
					gi := &globalInfo{typ: g.Type().(*types.Pointer).Elem()}
					if i < len(vs.Values) {
						if cl, ok := vs.Values[i].(*ast.CompositeLit); ok {
							gi.lit = cl
						}
					}
					e.globals[g] = gi
				}
			}
		}
	}
	// stores into globals (outside the synthesized package initializer)
	for _, fn := range e.allFuncs() {
		if fn.Name() == "init" && fn.Synthetic != "" {
			continue
		}
		for _, b := range fn.Blocks {
			for _, in := range b.Instrs {
				st, ok := in.(*ssa.Store)
				if !ok {
					continue
				}
				if g := rootGlobal(st.Addr); g != nil {
					if gi := e.globals[g]; gi != nil {
						gi.mutated = true
					}
				}
			}
		}
	}
}

func rootGlobal(v ssa.Value) *ssa.Global {
	for {
		switch x := v.(type) {
		case *ssa.Global:
			return x
		case *ssa.IndexAddr:
			v = x.X
		case *ssa.FieldAddr:
			v = x.X
		case *ssa.Slice:
			v = x.X
		default:
			return nil
		}
	}
}

func (e *Engine) allFuncs() []*ssa.Function {
	var out []*ssa.Function
	seen := map[*ssa.Function]bool{}
	var add func(fn *ssa.Function)
	add = func(fn *ssa.Function) {
		if fn == nil || seen[fn] {
			return
		}
		seen[fn] = true
		out = append(out, fn)
		for _, an := range fn.AnonFuncs {
			add(an)
		}
	}
	for _, fn := range e.funcs {
		add(fn)
	}
	for _, m := range e.spkg.Members {
		if fn, ok := m.(*ssa.Function); ok {
			add(fn)
		}
	}
	return out
}

// globalObject returns the heap object of a package-level variable. Read-only tables with
// composite-literal initialisers get their contents from the current source.
func (e *Engine) globalObject(fx *FuncCtx, g *ssa.Global) *Object {
	if fx.globalObjs == nil {
		fx.globalObjs = map[*ssa.Global]*Object{}
	}
	if o, ok := fx.globalObjs[g]; ok {
		return o
	}
	t := g.Type().(*types.Pointer).Elem()
	o := fx.newObject(t, "global."+g.Name())
	gi := e.globals[g]
	if gi != nil && gi.lit != nil && !gi.mutated {
		if v, ok := e.litArray(fx, gi.lit, t); ok {
			o.Init = v
		}
	}
	if o.Init == nil {
		if gi != nil && gi.mutated {
			fx.warn("global %s is written at run time: contents unknown", g.Name())
		}
		o.Init = fx.Fresh(t, "global."+g.Name())
	}
	fx.globalObjs[g] = o
	return o
}

// litArray evaluates an array composite literal of constants to an SMT array.
func (e *Engine) litArray(fx *FuncCtx, cl *ast.CompositeLit, t types.Type) (Value, bool) {
	at, ok := t.Underlying().(*types.Array)
	if !ok {
		return nil, false
	}
	es, ok := sortOfType(at.Elem())
	if !ok || es.K == KArr {
		return nil, false
	}
	zero := fx.Zero(at.Elem()).(Term)
	arr := ConstArr(es, zero)
	idx := int64(0)
	for _, el := range cl.Elts {
		val := el
		if kv, ok := el.(*ast.KeyValueExpr); ok {
			ktv := e.pkgInfo.Types[kv.Key]
			if ktv.Value == nil {
				return nil, false
			}
			idx = bigOf(constantToInt(ktv)).Int64()
			val = kv.Value
		}
		vtv := e.pkgInfo.Types[val]
		if vtv.Value == nil {
			return nil, false
		}
		v := fx.constOfType(vtv.Value, at.Elem()).(Term)
		if v.S != zero.S {
			arr = Store(arr, i64(idx), v)
		}
		idx++
	}
	return ArrayVal{Arr: arr, ElemT: at.Elem()}, true
}

func (e *Engine) summaryFor(fn *ssa.Function) *Contract {
	key := funcKey(fn)
	if e.funcs[key] != fn {
		return nil
	}
	for _, c := range e.contracts {
		if c.FuncKey == key && c.Summary {
			if _, err := e.prepareContract(c); err != nil {
				panic(specError(err.Error()))
			}
			return c
		}
	}
	return nil
}

// loopContractFor returns a contract supplying loop invariants for an inlined function.
func (e *Engine) loopContractFor(fn *ssa.Function) *Contract {
	key := funcKey(fn)
	if e.funcs[key] != fn {
		return nil
	}
	for _, c := range e.contracts {
		if c.FuncKey == key && len(c.Ghosts) == 0 && (len(c.Invariants) > 0 || len(c.Decreases) > 0) {
			if _, err := e.prepareContract(c); err != nil {
				panic(specError(err.Error()))
			}
			return c
		}
	}
	return nil
}

// exprTextAt returns the source text of the innermost expression enclosing pos that matches the wanted kind.
func (e *Engine) exprTextAt(pos token.Pos, want string) string {
	tf := e.fset.File(pos)
	if tf == nil {
		return "?"
	}
	f := e.files[tf.Name()]
	if f == nil {
		return "?"
	}
	path, _ := astutil.PathEnclosingInterval(f, pos, pos)
	for _, n := range path {
		var ex ast.Node
		switch x := n.(type) {
		case *ast.IndexExpr:
			if want == "index" || want == "nil" || want == "load" {
				ex = x
			}
		case *ast.SliceExpr:
			if want == "slice" || want == "nil" {
				ex = x
			}
		case *ast.CallExpr:
			if want == "call" || want == "conv" || want == "make" || want == "panic" || want == "ta" || want == "atomic" {
				ex = x
			}
		case *ast.BinaryExpr:
			if want == "div" || want == "shift" {
				ex = x
			}
		case *ast.SelectorExpr:
			if want == "nil" || want == "field" || want == "load" || want == "store" {
				ex = x
			}
		case *ast.StarExpr:
			if want == "nil" || want == "load" || want == "store" {
				ex = x
			}
		case *ast.AssignStmt:
			if want == "store" || want == "nil" {
				ex = x.Lhs[0]
			}
		case *ast.RangeStmt:
			if want == "index" {
				ex = x.X
			}
		case *ast.TypeAssertExpr:
			if want == "ta" {
				ex = x
			}
		}
		if ex != nil {
			return compact(e.nodeText(ex))
		}
	}
	if len(path) > 0 {
		if ex, ok := path[0].(ast.Expr); ok {
			return compact(e.nodeText(ex))
		}
	}
	return "?"
}

func (e *Engine) nodeText(n ast.Node) string {
	tf := e.fset.File(n.Pos())
	src, err := os.ReadFile(tf.Name())
	if err != nil {
		return "?"
	}
	a, b := tf.Offset(n.Pos()), tf.Offset(n.End())
	if a < 0 || b > len(src) || a > b {
		return "?"
	}
	return string(src[a:b])
}

func compact(s string) string {
	s = strings.Join(strings.Fields(s), "")
	if len(s) > 60 {
		s = s[:60] + "~"
	}
	return s
}
