package main

// Engine: loads /repo (tag verif) with go/packages, builds SSA, reads contracts.

import (
	"fmt"
	"go/ast"
	"go/token"
	"go/types"
	"os"
	"path/filepath"
	"strings"

	"golang.org/x/tools/go/ast/astutil"
	"golang.org/x/tools/go/packages"
	"golang.org/x/tools/go/ssa"
	"golang.org/x/tools/go/ssa/ssautil"
)

type Engine struct {
	fset         *token.FileSet
	pkg          *packages.Package
	tpkg         *types.Package
	pkgInfo      *types.Info
	prog         *ssa.Program
	spkg         *ssa.Package
	funcs        map[string]*ssa.Function
	contracts    []*Contract
	externRaw    [][2]string
	externAssume map[string][]ExternAssume
	specFuncs    map[string]*ast.FuncDecl
	globals      map[*ssa.Global]*globalInfo
	files        map[string]*ast.File
	repo         string
	contractFile string
	uninterpSpec map[string]bool
	tableFacts   []*TableFact
	typeInvs     []*TableFact
}

type globalInfo struct {
	lit      *ast.CompositeLit
	mutated  bool
	mutators map[string]bool // names of the functions that store into the global
	initVal  func(fx *FuncCtx) Value
	typ      types.Type
	constArr *Term
}

func loadEngine(repo string, tags string, contractPath string) (*Engine, error) {
	e := &Engine{repo: repo, funcs: map[string]*ssa.Function{}, specFuncs: map[string]*ast.FuncDecl{}, globals: map[*ssa.Global]*globalInfo{},
		files: map[string]*ast.File{}, externAssume: map[string][]ExternAssume{}, uninterpSpec: map[string]bool{}}
	cfg := &packages.Config{Mode: packages.LoadAllSyntax, Dir: repo, BuildFlags: []string{"-tags=" + tags}}
	cfg.Env = append(os.Environ(), "GOFLAGS=-mod=mod", "GOPROXY=off", "GOSUMDB=off", "GOTOOLCHAIN=local")
	if contractPath != "" {
		// the contract file lives outside the build? no: it is /repo/verif_contracts.go, already part of the package under the tag
	}
	pkgs, err := packages.Load(cfg, ".")
	if err != nil {
		return nil, err
	}
	if len(pkgs) != 1 {
		return nil, fmt.Errorf("expected one package, got %d", len(pkgs))
	}
	p := pkgs[0]
	if len(p.Errors) > 0 {
		return nil, fmt.Errorf("package errors: %v", p.Errors)
	}
	e.pkg = p
	e.fset = p.Fset
	e.tpkg = p.Types
	e.pkgInfo = p.TypesInfo
	prog, spkgs := ssautil.AllPackages(pkgs, ssa.GlobalDebug)
	prog.Build()
	e.prog = prog
	e.spkg = spkgs[0]
	for _, m := range e.spkg.Members {
		switch x := m.(type) {
		case *ssa.Function:
			e.funcs[x.Name()] = x
			for _, an := range x.AnonFuncs {
				e.funcs[an.Name()] = an
			}
		case *ssa.Type:
			for _, t := range []types.Type{x.Type(), types.NewPointer(x.Type())} {
				ms := prog.MethodSets.MethodSet(t)
				for i := 0; i < ms.Len(); i++ {
					fn := prog.MethodValue(ms.At(i))
					if fn == nil || fn.Synthetic != "" {
						continue
					}
					e.funcs[funcKey(fn)] = fn
					for _, an := range fn.AnonFuncs {
						e.funcs[funcKey(fn)+"$"+strings.TrimPrefix(an.Name(), fn.Name()+"$")] = an
					}
				}
			}
		}
	}
	var cfile *ast.File
	for i, f := range p.Syntax {
		name := p.CompiledGoFiles[i]
		e.files[name] = f
		if filepath.Base(name) == "verif_contracts.go" {
			cfile = f
			e.contractFile = name
			for _, d := range f.Decls {
				if fd, ok := d.(*ast.FuncDecl); ok && fd.Recv == nil && fd.Body != nil {
					e.specFuncs[fd.Name.Name] = fd
				}
			}
		}
	}
	e.scanGlobals()
	if cfile == nil {
		return nil, fmt.Errorf("verif_contracts.go not found in package (tags %s)", tags)
	}
	if err := e.loadContracts(cfile); err != nil {
		return nil, err
	}
	for _, tf := range e.tableFacts {
		tf.Info = &types.Info{Types: map[ast.Expr]types.TypeAndValue{}, Uses: map[*ast.Ident]types.Object{}, Defs: map[*ast.Ident]types.Object{},
			Selections: map[*ast.SelectorExpr]*types.Selection{}, Instances: map[*ast.Ident]types.Instance{}}
		expr, err := e.checkExpr(tf.Cl.Src, cfile.End(), []string{"c int"}, tf.Info, true)
		if err != nil {
			return nil, fmt.Errorf("tablefact %s: %v", tf.Global, err)
		}
		tf.Cl.Expr = expr
	}
	for _, tf := range e.typeInvs {
		tf.Info = &types.Info{Types: map[ast.Expr]types.TypeAndValue{}, Uses: map[*ast.Ident]types.Object{}, Defs: map[*ast.Ident]types.Object{},
			Selections: map[*ast.SelectorExpr]*types.Selection{}, Instances: map[*ast.Ident]types.Instance{}}
		expr, err := e.checkExpr(tf.Cl.Src, cfile.End(), []string{"v " + tf.Global}, tf.Info, true)
		if err != nil {
			return nil, fmt.Errorf("typeinv %s: %v", tf.Global, err)
		}
		tf.Cl.Expr = expr
	}
	for _, ex := range e.externRaw {
		info := &types.Info{Types: map[ast.Expr]types.TypeAndValue{}, Uses: map[*ast.Ident]types.Object{}, Defs: map[*ast.Ident]types.Object{},
			Selections: map[*ast.SelectorExpr]*types.Selection{}, Instances: map[*ast.Ident]types.Instance{}}
		expr, err := e.checkExpr(ex[1], cfile.End(), []string{"r0 uint64"}, info, true)
		if err != nil {
			return nil, fmt.Errorf("extern %s: %v", ex[0], err)
		}
		e.externAssume[ex[0]] = append(e.externAssume[ex[0]], ExternAssume{Src: ex[1], Expr: expr, Info: info})
	}
	return e, nil
}

// scanGlobals records package-level variables with composite-literal initialisers
// and whether any function stores into them.
func (e *Engine) scanGlobals() {
	for _, f := range e.pkg.Syntax {
		for _, d := range f.Decls {
			gd, ok := d.(*ast.GenDecl)
			if !ok || gd.Tok != token.VAR {
				continue
			}
			for _, sp := range gd.Specs {
				vs := sp.(*ast.ValueSpec)
				for i, nm := range vs.Names {
					g, ok := e.spkg.Members[nm.Name].(*ssa.Global)
					if !ok {
						continue
					}
					gi := &globalInfo{typ: g.Type().(*types.Pointer).Elem()}
					if i < len(vs.Values) {
						if cl, ok := vs.Values[i].(*ast.CompositeLit); ok {
							gi.lit = cl
						}
					}
					e.globals[g] = gi
				}
			}
		}
	}
	// stores into globals (outside the synthesized package initializer)
	for _, fn := range e.allFuncs() {
		if fn.Name() == "init" && fn.Synthetic != "" {
			continue
		}
		for _, b := range fn.Blocks {
			for _, in := range b.Instrs {
				st, ok := in.(*ssa.Store)
				if !ok {
					continue
				}
				if g := rootGlobal(st.Addr); g != nil {
					if gi := e.globals[g]; gi != nil {
						gi.mutated = true
						if gi.mutators == nil {
							gi.mutators = map[string]bool{}
						}
						gi.mutators[fn.Name()] = true
					}
				}
			}
		}
	}
}

func rootGlobal(v ssa.Value) *ssa.Global {
	for {
		switch x := v.(type) {
		case *ssa.Global:
			return x
		case *ssa.IndexAddr:
			v = x.X
		case *ssa.FieldAddr:
			v = x.X
		case *ssa.Slice:
			v = x.X
		default:
			return nil
		}
	}
}

func (e *Engine) allFuncs() []*ssa.Function {
	var out []*ssa.Function
	seen := map[*ssa.Function]bool{}
	var add func(fn *ssa.Function)
	add = func(fn *ssa.Function) {
		if fn == nil || seen[fn] {
			return
		}
		seen[fn] = true
		out = append(out, fn)
		for _, an := range fn.AnonFuncs {
			add(an)
		}
	}
	for _, fn := range e.funcs {
		add(fn)
	}
	for _, m := range e.spkg.Members {
		if fn, ok := m.(*ssa.Function); ok {
			add(fn)
		}
	}
	return out
}

// globalObject returns the heap object of a package-level variable. Read-only tables with
// composite-literal initialisers get their contents from the current source.
func (e *Engine) globalObject(fx *FuncCtx, g *ssa.Global) *Object {
	if fx.globalObjs == nil {
		fx.globalObjs = map[*ssa.Global]*Object{}
	}
	if o, ok := fx.globalObjs[g]; ok {
		return o
	}
	t := g.Type().(*types.Pointer).Elem()
	o := fx.newObject(t, "global."+g.Name())
	gi := e.globals[g]
	hasFact := false
	for _, tf := range e.tableFacts {
		if tf.Global == g.Name() {
			hasFact = true
		}
	}
	if gi != nil && gi.lit != nil && !gi.mutated && !hasFact {
		if v, ok := e.litArray(fx, gi.lit, t); ok {
			o.Init = v
		}
	}
	if hasFact && gi != nil && !gi.mutated {
		// the table is abstracted by its table facts (each checked for every entry of the literal)
		o.Init = fx.Fresh(t, "table."+g.Name())
	}
	if o.Init == nil && gi != nil && gi.lit != nil && gi.mutated {
		// written only by source-level init functions that are under contract: the run-time contents are
		// what those contracts ensure, starting from the literal
		onlyInit := true
		var initName string
		for m := range gi.mutators {
			if !strings.HasPrefix(m, "init#") {
				onlyInit = false
			}
			initName = m
		}
		if lit, ok := e.litArray(fx, gi.lit, t); ok && onlyInit && len(gi.mutators) == 1 {
			if fx.fn.Name() == initName {
				o.Init = lit
			} else if ct := e.contractByKey(initName); ct != nil {
				if _, err := e.prepareContract(ct); err == nil {
					o.Init = fx.Fresh(t, "global."+g.Name())
					fx.globalObjs[g] = o
					now := &State{fx: fx, heap: map[*Object]Value{}, discover: &discoverCtx{}}
					old := &State{fx: fx, heap: map[*Object]Value{o: lit}, discover: &discoverCtx{}}
					env := &SpecEnv{fx: fx, st: now, old: old, vars: map[string]Value{}, info: ct.Info, ct: ct}
					for i := range ct.Ensures {
						fx.axiom(env.evalBool(ct.Ensures[i].Expr))
					}
					fx.warn("global %s: contents taken from the contract of %s applied to its literal", g.Name(), initName)
					return o
				}
			}
		}
	}
	if o.Init == nil {
		if gi != nil && gi.mutated {
			fx.warn("global %s is written at run time: contents unknown", g.Name())
		}
		o.Init = fx.Fresh(t, "global."+g.Name())
	}
	fx.globalObjs[g] = o
	for _, tf := range e.tableFacts {
		if tf.Global != g.Name() {
			continue
		}
		at, ok := t.Underlying().(*types.Array)
		if !ok {
			continue
		}
		// facts are instantiated at every read of the table (tableInstance); no quantified axiom is needed
		if fx.factObjs == nil {
			fx.factObjs = map[*Object][]*TableFact{}
		}
		fx.factObjs[o] = append(fx.factObjs[o], tf)
		_ = at
	}
	return o
}

// tableInstanceNoDedupe: the instances for a read executed on one path (assumed on that path only).
func (fx *FuncCtx) tableInstanceNoDedupe(o *Object, idx Term) []Term {
	var out []Term
	if boundRe.MatchString(idx.S) {
		return nil
	}
	for _, tf := range fx.factObjs[o] {
		st := &State{fx: fx, heap: map[*Object]Value{}, discover: &discoverCtx{}}
		env := &SpecEnv{fx: fx, st: st, vars: map[string]Value{"c": idx}, info: tf.Info}
		out = append(out, env.evalBool(tf.Cl.Expr))
	}
	return out
}

// tableInstance returns the table facts of object o instantiated at index idx (a BV64 term inside the array bounds).
func (fx *FuncCtx) tableInstance(o *Object, idx Term) []Term {
	var out []Term
	for _, tf := range fx.factObjs[o] {
		key := fmt.Sprintf("%p|%s|%s", o, tf.Cl.Name, idx.S)
		if fx.factDone == nil {
			fx.factDone = map[string]bool{}
		}
		if fx.factDone[key] || boundRe.MatchString(idx.S) {
			continue
		}
		fx.factDone[key] = true
		st := &State{fx: fx, heap: map[*Object]Value{}, discover: &discoverCtx{}}
		env := &SpecEnv{fx: fx, st: st, vars: map[string]Value{"c": idx}, info: tf.Info}
		out = append(out, env.evalBool(tf.Cl.Expr))
	}
	return out
}

// checkTableFacts evaluates every table fact for every index (the tables are literals: the check is exhaustive).
func (e *Engine) checkTableFacts() {
	for _, tf := range e.tableFacts {
		g, _ := e.spkg.Members[tf.Global].(*ssa.Global)
		if g == nil {
			tf.Detail = "no such global"
			continue
		}
		fx := &FuncCtx{eng: e, decls: map[string]Sort{}, warnings: map[string]bool{}, cutInfo: map[*ssa.Function]*CutInfo{}}
		gi := e.globals[g]
		t := g.Type().(*types.Pointer).Elem()
		at, ok := t.Underlying().(*types.Array)
		if gi == nil || gi.lit == nil || gi.mutated || !ok {
			tf.Detail = "table is not an immutable array literal"
			continue
		}
		lit, ok := e.litArray(fx, gi.lit, t)
		if !ok {
			tf.Detail = "literal not evaluable"
			continue
		}
		o := fx.newObject(t, "global."+g.Name())
		o.Init = lit
		fx.globalObjs = map[*ssa.Global]*Object{g: o}
		bad := -1
		func() {
			defer func() {
				if r := recover(); r != nil {
					tf.Detail = fmt.Sprint("evaluation failed: ", r)
					bad = 0
				}
			}()
			for c := int64(0); c < at.Len(); c++ {
				st := &State{fx: fx, heap: map[*Object]Value{}, discover: &discoverCtx{}}
				env := &SpecEnv{fx: fx, st: st, vars: map[string]Value{"c": i64(c)}, info: tf.Info}
				r := concreteBool(env.evalBool(tf.Cl.Expr))
				if r == nil || !*r {
					bad = int(c)
					tf.Detail = fmt.Sprintf("fails (or does not evaluate to a constant) at index %d", c)
					return
				}
			}
		}()
		if bad < 0 {
			tf.OK = true
			tf.Detail = fmt.Sprintf("checked for all %d entries", at.Len())
		}
	}
}

// concreteBool folds a ground Bool term whose array reads are selects over store chains with constant indices.
func concreteBool(t Term) *bool {
	if t.BC != nil {
		return t.BC
	}
	v := evalGround(parseSx(t.S))
	if b, ok := v.(bool); ok {
		return &b
	}
	return nil
}

// litArray evaluates an array composite literal of constants to an SMT array.
func (e *Engine) litArray(fx *FuncCtx, cl *ast.CompositeLit, t types.Type) (Value, bool) {
	at, ok := t.Underlying().(*types.Array)
	if !ok {
		return nil, false
	}
	es, ok := sortOfType(at.Elem())
	if !ok || es.K == KArr {
		return nil, false
	}
	zero := fx.Zero(at.Elem()).(Term)
	arr := ConstArr(es, zero)
	idx := int64(0)
	for _, el := range cl.Elts {
		val := el
		if kv, ok := el.(*ast.KeyValueExpr); ok {
			ktv := e.pkgInfo.Types[kv.Key]
			if ktv.Value == nil {
				return nil, false
			}
			idx = bigOf(constantToInt(ktv)).Int64()
			val = kv.Value
		}
		vtv := e.pkgInfo.Types[val]
		if vtv.Value == nil {
			return nil, false
		}
		v := fx.constOfType(vtv.Value, at.Elem()).(Term)
		if v.S != zero.S {
			arr = Store(arr, i64(idx), v)
		}
		idx++
	}
	return ArrayVal{Arr: arr, ElemT: at.Elem()}, true
}

func (e *Engine) contractByKey(key string) *Contract {
	for _, c := range e.contracts {
		if c.FuncKey == key {
			return c
		}
	}
	return nil
}

func (e *Engine) summaryFor(fn *ssa.Function) *Contract {
	key := funcKey(fn)
	if e.funcs[key] != fn {
		return nil
	}
	for _, c := range e.contracts {
		if c.FuncKey == key && c.Summary {
			if _, err := e.prepareContract(c); err != nil {
				panic(specError(err.Error()))
			}
			return c
		}
	}
	return nil
}

// loopContractFor returns a contract supplying loop invariants for an inlined function.
func (e *Engine) loopContractFor(fn *ssa.Function) *Contract {
	key := funcKey(fn)
	if e.funcs[key] != fn {
		return nil
	}
	for _, c := range e.contracts {
		if c.FuncKey == key && len(c.Ghosts) == 0 && (len(c.Invariants) > 0 || len(c.Decreases) > 0) {
			if _, err := e.prepareContract(c); err != nil {
				panic(specError(err.Error()))
			}
			return c
		}
	}
	return nil
}

// exprTextAt returns the source text of the innermost expression enclosing pos that matches the wanted kind.
func (e *Engine) exprTextAt(pos token.Pos, want string) string {
	tf := e.fset.File(pos)
	if tf == nil {
		return "?"
	}
	f := e.files[tf.Name()]
	if f == nil {
		return "?"
	}
	path, _ := astutil.PathEnclosingInterval(f, pos, pos)
	for _, n := range path {
		var ex ast.Node
		switch x := n.(type) {
		case *ast.IndexExpr:
			if want == "index" || want == "nil" || want == "load" {
				ex = x
			}
		case *ast.SliceExpr:
			if want == "slice" || want == "nil" {
				ex = x
			}
		case *ast.CallExpr:
			if want == "call" || want == "conv" || want == "make" || want == "panic" || want == "ta" || want == "atomic" {
				ex = x
			}
		case *ast.BinaryExpr:
			if want == "div" || want == "shift" {
				ex = x
			}
		case *ast.SelectorExpr:
			if want == "nil" || want == "field" || want == "load" || want == "store" {
				ex = x
			}
		case *ast.StarExpr:
			if want == "nil" || want == "load" || want == "store" {
				ex = x
			}
		case *ast.AssignStmt:
			if want == "store" || want == "nil" {
				ex = x.Lhs[0]
			}
		case *ast.RangeStmt:
			if want == "index" {
				ex = x.X
			}
		case *ast.TypeAssertExpr:
			if want == "ta" {
				ex = x
			}
		}
		if ex != nil {
			return compact(e.nodeText(ex))
		}
	}
	if len(path) > 0 {
		if ex, ok := path[0].(ast.Expr); ok {
			return compact(e.nodeText(ex))
		}
	}
	return "?"
}

func (e *Engine) nodeText(n ast.Node) string {
	tf := e.fset.File(n.Pos())
	src, err := os.ReadFile(tf.Name())
	if err != nil {
		return "?"
	}
	a, b := tf.Offset(n.Pos()), tf.Offset(n.End())
	if a < 0 || b > len(src) || a > b {
		return "?"
	}
	return string(src[a:b])
}

func compact(s string) string {
	s = strings.Join(strings.Fields(s), "")
	if len(s) > 60 {
		s = s[:60] + "~"
	}
	return s
}
