package main

// Semantics of individual SSA instructions.

import (
	"fmt"
	"strings"
	"go/ast"
	"go/constant"
	"go/token"
	"go/types"
	"math/big"

	"golang.org/x/tools/go/ssa"
)

func bigOf(v constant.Value) *big.Int {
	switch x := constant.Val(v).(type) {
	case int64:
		return big.NewInt(x)
	case *big.Int:
		return x
	}
	panic("bigOf: not an int constant")
}

func i64(v int64) Term { return BVConst(64, v) }

// step executes one non-control instruction. It may fork (returning extra states) or end the path.
func (fx *FuncCtx) step(st *State, in ssa.Instruction) (forks []*State, ended bool) {
	f := st.top()
	switch x := in.(type) {
	case *ssa.Alloc:
		et := x.Type().(*types.Pointer).Elem()
		o := st.siteObject(x, et, "alloc."+x.Comment)
		st.heap[o] = fx.Zero(et)
		f.vals[x] = PtrVal{Obj: o, Nil: False(), Elem: et}
		if x.Comment != "" && !strings.ContainsAny(x.Comment, " .()") {
			f.locals[x.Comment] = localAddr{P: f.vals[x].(PtrVal)}
		}
	case *ssa.FieldAddr:
		p := st.ptr(x.X, x.Pos(), "field")
		np := p.extend(PathElem{Field: x.Field})
		np.Elem = x.Type().(*types.Pointer).Elem()
		f.vals[x] = np
	case *ssa.Field:
		sv := st.val(x.X)
		switch s := sv.(type) {
		case StructVal:
			f.vals[x] = s.Fields[x.Field]
		default:
			f.vals[x] = fx.Fresh(x.Type(), "field")
		}
	case *ssa.IndexAddr:
		idx := st.intTerm(x.Index, 64)
		switch xt := x.X.Type().Underlying().(type) {
		case *types.Slice:
			sv := st.val(x.X).(SliceVal)
			st.oblige("safe", "safe#index@"+fx.siteText(f.fn, x.Pos(), "index"), BVUlt(idx, sv.Len), x.Pos())
			st.assume(BVUlt(idx, sv.Len))
			np := sv.Base.extend(PathElem{Field: -1, Idx: BVAdd(sv.Off, idx)})
			np.Elem = xt.Elem()
			f.vals[x] = np
		case *types.Pointer:
			at := xt.Elem().Underlying().(*types.Array)
			p := st.ptr(x.X, x.Pos(), "index")
			n := i64(at.Len())
			st.oblige("safe", "safe#index@"+fx.siteText(f.fn, x.Pos(), "index"), BVUlt(idx, n), x.Pos())
			st.assume(BVUlt(idx, n))
			np := p.extend(PathElem{Field: -1, Idx: idx})
			np.Elem = at.Elem()
			f.vals[x] = np
		default:
			panic("IndexAddr on " + x.X.Type().String())
		}
	case *ssa.Index:
		idx := st.intTerm(x.Index, 64)
		switch xv := st.val(x.X).(type) {
		case StringVal:
			st.oblige("safe", "safe#index@"+fx.siteText(f.fn, x.Pos(), "index"), BVUlt(idx, xv.Len), x.Pos())
			st.assume(BVUlt(idx, xv.Len))
			f.vals[x] = Select(st.baseArr(xv.Base).Arr, BVAdd(xv.Off, idx))
		case ArrayVal:
			at := x.X.Type().Underlying().(*types.Array)
			st.oblige("safe", "safe#index@"+fx.siteText(f.fn, x.Pos(), "index"), BVUlt(idx, i64(at.Len())), x.Pos())
			st.assume(BVUlt(idx, i64(at.Len())))
			f.vals[x] = fx.project(xv, PathElem{Field: -1, Idx: idx})
		default:
			f.vals[x] = fx.Fresh(x.Type(), "index")
		}
	case *ssa.UnOp:
		f.vals[x] = fx.unop(st, x)
	case *ssa.BinOp:
		f.vals[x] = fx.binop(st, x)
	case *ssa.Store:
		p := st.ptr(x.Addr, x.Pos(), "store")
		st.Store(p, st.val(x.Val))
		fx.afterStore(st, x)
	case *ssa.Convert:
		f.vals[x] = fx.convert(st, x)
	case *ssa.ChangeType:
		f.vals[x] = st.val(x.X)
	case *ssa.ChangeInterface:
		f.vals[x] = st.val(x.X)
	case *ssa.MakeInterface:
		f.vals[x] = IfaceVal{Nil: False(), T: x.Type()}
	case *ssa.SliceToArrayPointer:
		f.vals[x] = fx.Fresh(x.Type(), "s2a")
	case *ssa.Slice:
		f.vals[x] = fx.sliceOp(st, x)
	case *ssa.MakeSlice:
		l := st.intTerm(x.Len, 64)
		c := st.intTerm(x.Cap, 64)
		site := fx.siteText(f.fn, x.Pos(), "make")
		lim := BVConstU(64, 1<<maxSliceLog)
		st.oblige("safe", "safe#makeslice@"+site, And(BVSle(i64(0), l), BVSle(l, c), BVSlt(c, lim)), x.Pos())
		st.assume(And(BVSle(i64(0), l), BVSle(l, c), BVSlt(c, lim)))
		et := x.Type().Underlying().(*types.Slice).Elem()
		o := st.siteObject(x, types.NewArray(et, 0), "make")
		z := fx.Zero(types.NewArray(et, 0))
		st.heap[o] = z
		f.vals[x] = SliceVal{Base: PtrVal{Obj: o, Nil: False()}, Off: i64(0), Len: l, Cap: c, Nil: False(), ElemT: et}
	case *ssa.MakeMap:
		fx.mapID++
		f.vals[x] = MapVal{Len: i64(0), ID: fx.mapID, T: x.Type()}
	case *ssa.MakeChan:
		f.vals[x] = OpaqueVal{T: x.Type(), Desc: "chan"}
	case *ssa.MakeClosure:
		f.vals[x] = OpaqueVal{T: x.Type(), Desc: "closure " + x.Fn.Name()}
	case *ssa.Extract:
		tv := st.val(x.Tuple)
		if t, ok := tv.(TupleVal); ok {
			f.vals[x] = t[x.Index]
		} else {
			f.vals[x] = fx.Fresh(x.Type(), "extract")
		}
	case *ssa.Lookup:
		// map lookup or string index
		if _, ok := x.X.Type().Underlying().(*types.Map); ok {
			mv, _ := st.val(x.X).(MapVal)
			okT := fx.mapHas(st, mv, st.val(x.Index))
			if mv.Len.S != "" {
				// a lookup can only succeed in a non-empty map
				st.assume(Implies(okT, BVSlt(i64(0), mv.Len)))
			}
			elem := fx.Fresh(x.X.Type().Underlying().(*types.Map).Elem(), "mapelem")
			if x.CommaOk {
				f.vals[x] = TupleVal{elem, okT}
			} else {
				f.vals[x] = elem
			}
		} else {
			sv := st.val(x.X).(StringVal)
			idx := st.intTerm(x.Index, 64)
			st.oblige("safe", "safe#index@"+fx.siteText(f.fn, x.Pos(), "index"), BVUlt(idx, sv.Len), x.Pos())
			st.assume(BVUlt(idx, sv.Len))
			f.vals[x] = Select(st.baseArr(sv.Base).Arr, BVAdd(sv.Off, idx))
		}
	case *ssa.MapUpdate:
		// contents of maps are not modelled; length becomes unknown
		if mp, ok := st.val(x.Map).(MapVal); ok {
			_ = mp
		}
	case *ssa.TypeAssert:
		if x.CommaOk {
			f.vals[x] = TupleVal{fx.Fresh(x.AssertedType, "ta"), fx.FreshSym("taok", SBool)}
		} else {
			fx.warn("type assertion without comma-ok assumed to succeed: %s", fx.siteText(f.fn, x.Pos(), "ta"))
			f.vals[x] = fx.Fresh(x.AssertedType, "ta")
			if p, ok := f.vals[x].(PtrVal); ok {
				p.Nil = False()
				f.vals[x] = p
			}
		}
	case *ssa.Range:
		f.vals[x] = OpaqueVal{T: x.Type(), Desc: "range"}
	case *ssa.Next:
		okT := fx.FreshSym("rangeok", SBool)
		tup := x.Type().(*types.Tuple)
		f.vals[x] = TupleVal{okT, fx.Fresh(tup.At(1).Type(), "rangek"), fx.Fresh(tup.At(2).Type(), "rangev")}
	case *ssa.Go:
		fx.warn("go statement: spawned goroutine %s is not interleaved here", x.Call.Value.Name())
	case *ssa.Defer:
		fx.warn("defer: deferred call effects not modelled (%s)", describeCall(&x.Call))
	case *ssa.RunDefers:
	case *ssa.Send:
	case *ssa.Select:
		tup := x.Type().(*types.Tuple)
		var tv TupleVal
		idx := fx.FreshSym("selidx", SBV64)
		n := int64(len(x.States))
		lo := i64(0)
		if !x.Blocking {
			lo = BVConst(64, -1)
		}
		fx.axiom(And(BVSle(lo, idx), BVSlt(idx, i64(n))))
		tv = append(tv, idx, fx.FreshSym("selok", SBool))
		for i := 2; i < tup.Len(); i++ {
			tv = append(tv, fx.Fresh(tup.At(i).Type(), "selrecv"))
		}
		f.vals[x] = tv
	case *ssa.DebugRef:
		if id, ok := x.Expr.(*ast.Ident); ok && id.Name != "_" {
			if x.IsAddr {
				if pv, ok := st.val(x.X).(PtrVal); ok {
					f.locals[id.Name] = localAddr{P: pv}
				}
			} else if _, isAddr := f.locals[id.Name].(localAddr); !isAddr {
				nv := st.val(x.X)
				if old, ok := f.locals[id.Name]; !ok || valKey(old) != valKey(nv) {
					// a (re)definition, not a mere use: remember where the value comes from
					if f.localBlk == nil {
						f.localBlk = map[string]*ssa.BasicBlock{}
					}
					f.localBlk[id.Name] = f.blk
				}
				f.locals[id.Name] = nv
			}
		}
	case *ssa.Call:
		return fx.call(st, x)
	default:
		panic(fmt.Sprintf("unsupported instruction %T: %s", in, in))
	}
	return nil, false
}

func describeCall(c *ssa.CallCommon) string {
	if c.IsInvoke() {
		return "invoke " + c.Method.Name()
	}
	return c.Value.Name()
}

// ptr evaluates a pointer-valued operand and emits the nil-dereference obligation.
func (st *State) ptr(v ssa.Value, pos token.Pos, what string) PtrVal {
	pv, ok := st.val(v).(PtrVal)
	if !ok {
		// opaque pointer (e.g. result of unknown call): materialise an unknown object
		et := v.Type().Underlying().(*types.Pointer).Elem()
		pv = st.fx.Fresh(v.Type(), "ptr").(PtrVal)
		pv.Elem = et
		st.top().vals[v] = pv
	}
	if pv.Nil.BC == nil || *pv.Nil.BC {
		st.oblige("safe", "safe#nil@"+st.fx.siteText(st.top().fn, pos, "nil"), Not(pv.Nil), pos)
		st.assume(Not(pv.Nil))
	}
	pv = st.fx.materialise(pv)
	pv.Nil = False()
	return pv
}

// intTerm evaluates an integer operand and resizes to w bits according to its own signedness.
func (st *State) intTerm(v ssa.Value, w int) Term {
	if v == nil {
		return Term{}
	}
	t := st.val(v).(Term)
	return Resize(t, w, isSignedType(v.Type()))
}

func (fx *FuncCtx) unop(st *State, x *ssa.UnOp) Value {
	f := st.top()
	switch x.Op {
	case token.MUL: // load
		p := st.ptr(x.X, x.Pos(), "load")
		v := st.Load(p, x.Type())
		if ov, ok := v.(OpaqueVal); ok && ov.T == nil {
			return fx.Fresh(x.Type(), "load")
		}
		return v
	case token.NOT:
		return Not(st.val(x.X).(Term))
	case token.SUB:
		t := st.val(x.X).(Term)
		if t.So.K == KFP {
			return Term{S: "(fp.neg " + t.S + ")", So: SFP}
		}
		return BVNeg(t)
	case token.XOR:
		return BVNot(st.val(x.X).(Term))
	case token.ARROW:
		// channel receive: unknown value
		if x.CommaOk {
			tup := x.Type().(*types.Tuple)
			return TupleVal{fx.Fresh(tup.At(0).Type(), "recv"), fx.FreshSym("recvok", SBool)}
		}
		return fx.Fresh(x.Type(), "recv")
	}
	_ = f
	panic("unsupported unop " + x.Op.String())
}

func (fx *FuncCtx) binop(st *State, x *ssa.BinOp) Value {
	f := st.top()
	xt := x.X.Type()
	a, b := st.val(x.X), st.val(x.Y)
	switch av := a.(type) {
	case Term:
		bv := b.(Term)
		switch av.So.K {
		case KBool:
			switch x.Op {
			case token.EQL:
				return Eq(av, bv)
			case token.NEQ:
				return Not(Eq(av, bv))
			case token.AND, token.LAND:
				return And(av, bv)
			case token.OR, token.LOR:
				return Or(av, bv)
			}
		case KFP:
			switch x.Op {
			case token.ADD:
				return FPBin("fp.add", av, bv)
			case token.SUB:
				return FPBin("fp.sub", av, bv)
			case token.MUL:
				return FPBin("fp.mul", av, bv)
			case token.QUO:
				return FPBin("fp.div", av, bv)
			case token.EQL:
				return FPCmp("fp.eq", av, bv)
			case token.NEQ:
				return Not(FPCmp("fp.eq", av, bv))
			case token.LSS:
				return FPCmp("fp.lt", av, bv)
			case token.LEQ:
				return FPCmp("fp.leq", av, bv)
			case token.GTR:
				return FPCmp("fp.gt", av, bv)
			case token.GEQ:
				return FPCmp("fp.geq", av, bv)
			}
		case KBV:
			sg := isSignedType(xt)
			switch x.Op {
			case token.SHL, token.SHR:
				// shift count: unsigned of any width (negative signed counts panic)
				cnt := bv
				if isSignedType(x.Y.Type()) {
					st.oblige("safe", "safe#shift@"+fx.siteText(f.fn, x.Pos(), "shift"), BVSle(BVConst(cnt.So.W, 0), cnt), x.Pos())
					st.assume(BVSle(BVConst(cnt.So.W, 0), cnt))
				}
				w := av.So.W
				var c2 Term
				big := False()
				if cnt.So.W > w {
					big = Not(BVUlt(cnt, BVConst(cnt.So.W, int64(w))))
					c2 = Extract(w-1, 0, cnt)
				} else {
					c2 = ZeroExt(w, cnt)
				}
				var r Term
				if x.Op == token.SHL {
					r = Ite(big, BVConst(w, 0), BVShl(av, c2))
				} else if sg {
					r = Ite(big, BVAshr(av, BVConst(w, int64(w-1))), BVAshr(av, c2))
				} else {
					r = Ite(big, BVConst(w, 0), BVLshr(av, c2))
				}
				return r
			case token.ADD:
				return BVAdd(av, bv)
			case token.SUB:
				return BVSub(av, bv)
			case token.MUL:
				return BVMul(av, bv)
			case token.QUO, token.REM:
				zero := BVConst(bv.So.W, 0)
				st.oblige("safe", "safe#divzero@"+fx.siteText(f.fn, x.Pos(), "div"), Not(Eq(bv, zero)), x.Pos())
				st.assume(Not(Eq(bv, zero)))
				if x.Op == token.QUO {
					if sg {
						return BVSdiv(av, bv)
					}
					return BVUdiv(av, bv)
				}
				if sg {
					return BVSrem(av, bv)
				}
				return BVUrem(av, bv)
			case token.AND:
				return BVAnd(av, bv)
			case token.OR:
				return BVOr(av, bv)
			case token.XOR:
				return BVXor(av, bv)
			case token.AND_NOT:
				return BVAnd(av, BVNot(bv))
			case token.EQL:
				return Eq(av, bv)
			case token.NEQ:
				return Not(Eq(av, bv))
			case token.LSS:
				if sg {
					return BVSlt(av, bv)
				}
				return BVUlt(av, bv)
			case token.LEQ:
				if sg {
					return BVSle(av, bv)
				}
				return BVUle(av, bv)
			case token.GTR:
				if sg {
					return BVSlt(bv, av)
				}
				return BVUlt(bv, av)
			case token.GEQ:
				if sg {
					return BVSle(bv, av)
				}
				return BVUle(bv, av)
			}
		}
	case PtrVal:
		bp, ok := b.(PtrVal)
		if !ok {
			break
		}
		eq := fx.ptrEq(av, bp)
		if x.Op == token.EQL {
			return eq
		}
		return Not(eq)
	case IfaceVal:
		bi, ok := b.(IfaceVal)
		if ok {
			var eq Term
			if bi.Nil.BC != nil && *bi.Nil.BC {
				eq = av.Nil
			} else if av.Nil.BC != nil && *av.Nil.BC {
				eq = bi.Nil
			} else {
				eq = fx.FreshSym("ifaceeq", SBool)
			}
			if x.Op == token.EQL {
				return eq
			}
			return Not(eq)
		}
	case SliceVal:
		// comparison with nil
		if x.Op == token.EQL {
			return av.Nil
		}
		return Not(av.Nil)
	case MapVal:
		r := fx.FreshSym("mapnil", SBool)
		return r
	case StringVal:
		bs, ok := b.(StringVal)
		if !ok {
			break
		}
		switch x.Op {
		case token.EQL, token.NEQ:
			eq := fx.bytesEq(st, av.Base, av.Off, av.Len, bs.Base, bs.Off, bs.Len)
			if x.Op == token.EQL {
				return eq
			}
			return Not(eq)
		case token.ADD:
			r := fx.Fresh(types.Typ[types.String], "concat").(StringVal)
			r.Len = BVAdd(av.Len, bs.Len)
			return r
		default:
			return fx.FreshSym("strcmp", SBool)
		}
	case OpaqueVal:
		if x.Op == token.EQL || x.Op == token.NEQ {
			return fx.FreshSym("opaqueeq", SBool)
		}
	}
	if x.Op == token.EQL || x.Op == token.NEQ {
		// struct / array comparisons etc.
		return fx.FreshSym("cmp", SBool)
	}
	panic(fmt.Sprintf("unsupported binop %s on %T (%s)", x.Op, a, x))
}

func (fx *FuncCtx) ptrEq(a, b PtrVal) Term {
	if b.Nil.BC != nil && *b.Nil.BC {
		return a.Nil
	}
	if a.Nil.BC != nil && *a.Nil.BC {
		return b.Nil
	}
	same, known := samePtr(a, b)
	if known {
		if same {
			return True()
		}
		return False()
	}
	// distinct lazy cells / unmaterialised: assumed distinct unless an alias variant binds them
	return False()
}

// bytesEq is content equality of two byte ranges: length equality and an uninterpreted content predicate.
func (fx *FuncCtx) bytesEq(st *State, ab PtrVal, aoff, alen Term, bb PtrVal, boff, blen Term) Term {
	aa, ba := st.baseArr(ab).Arr, st.baseArr(bb).Arr
	for _, l := range []Term{alen, blen} {
		if l.C != nil && l.C.IsInt64() && l.C.Int64() <= 32 {
			cs := []Term{Eq(alen, blen)}
			for k := int64(0); k < l.C.Int64(); k++ {
				cs = append(cs, Eq(Select(aa, BVAdd(aoff, i64(k))), Select(ba, BVAdd(boff, i64(k)))))
			}
			return And(cs...)
		}
	}
	fx.decls["bytes_eq"] = Sort{K: -1}
	c := Term{S: fmt.Sprintf("(bytes_eq %s %s %s %s %s)", aa.S, aoff.S, ba.S, boff.S, alen.S), So: SBool}
	return And(Eq(alen, blen), c)
}

func (fx *FuncCtx) convert(st *State, x *ssa.Convert) Value {
	f := st.top()
	from, to := x.X.Type(), x.Type()
	v := st.val(x.X)
	switch {
	case isIntType(from) && isIntType(to):
		so, _ := sortOfType(to)
		if t, ok := v.(Term); ok {
			return Resize(t, so.W, isSignedType(from))
		}
		fx.warn("unsafe pointer/integer conversion at %s yields an unknown value", fx.siteText(f.fn, x.Pos(), "conv"))
		return fx.Fresh(to, "unsafeint")
	case isIntType(from) && isFloatType(to):
		t := v.(Term)
		if isSignedType(from) {
			return FPFromSBV(t)
		}
		return FPFromUBV(t)
	case isFloatType(from) && isIntType(to):
		t := v.(Term)
		so, _ := sortOfType(to)
		site := fx.siteText(f.fn, x.Pos(), "conv")
		var r, fits Term
		if isSignedType(to) {
			r = FPToSBV(so.W, t)
			lo := FPFromSBV(BVConstBig(so.W, new(big.Int).Neg(new(big.Int).Lsh(big.NewInt(1), uint(so.W-1)))))
			hi := FPConstBits(floatBitsPow2(so.W - 1))
			fits = And(FPCmp("fp.geq", t, lo), FPCmp("fp.lt", t, hi))
		} else {
			r = FPToUBV(so.W, t)
			m1 := FPConstBits(0xBFF0000000000000) // -1.0
			hi := FPConstBits(floatBitsPow2(so.W))
			fits = And(FPCmp("fp.gt", t, m1), FPCmp("fp.lt", t, hi))
		}
		// Go leaves out-of-range float->int conversion implementation-defined: require representability.
		st.oblige("conv", "conv#float2int@"+site, fits, x.Pos())
		res := fx.FreshSym("f2i", so)
		st.assume(Implies(fits, Eq(res, r)))
		return res
	case isFloatType(from) && isFloatType(to):
		return v
	case isStringType(to):
		switch s := v.(type) {
		case SliceVal: // string([]byte): copy
			o := st.siteObject(x, types.NewArray(types.Typ[types.Uint8], 0), "str.copy")
			st.heap[o] = st.baseArr(s.Base)
			return StringVal{Base: PtrVal{Obj: o, Nil: False()}, Off: s.Off, Len: s.Len}
		case Term: // string(rune)
			return fx.Fresh(to, "runestr")
		}
		return fx.Fresh(to, "tostr")
	case isStringType(from):
		if sl, ok := to.Underlying().(*types.Slice); ok {
			if s, ok := v.(StringVal); ok {
				if b, ok := sl.Elem().Underlying().(*types.Basic); ok && b.Kind() == types.Uint8 {
					o := st.siteObject(x, types.NewArray(types.Typ[types.Uint8], 0), "bytes.copy")
					st.heap[o] = st.baseArr(s.Base)
					return SliceVal{Base: PtrVal{Obj: o, Nil: False()}, Off: s.Off, Len: s.Len, Cap: s.Len, Nil: False(), ElemT: sl.Elem()}
				}
			}
		}
		return fx.Fresh(to, "fromstr")
	}
	// unsafe.Pointer conversions and the like
	if _, ok := v.(PtrVal); ok {
		return OpaqueVal{T: to, Desc: "unsafe-ptr"}
	}
	if _, ok := to.Underlying().(*types.Pointer); ok {
		fx.warn("unsafe pointer conversion at %s yields an unknown pointer", fx.siteText(f.fn, x.Pos(), "conv"))
		return fx.Fresh(to, "unsafeptr")
	}
	return fx.Fresh(to, "convert")
}

func floatBitsPow2(e int) uint64 {
	return uint64(1023+e) << 52
}

func (fx *FuncCtx) sliceOp(st *State, x *ssa.Slice) Value {
	f := st.top()
	site := fx.siteText(f.fn, x.Pos(), "slice")
	lo := i64(0)
	if x.Low != nil {
		lo = st.intTerm(x.Low, 64)
	}
	switch xt := x.X.Type().Underlying().(type) {
	case *types.Slice:
		sv := st.val(x.X).(SliceVal)
		hi := sv.Len
		if x.High != nil {
			hi = st.intTerm(x.High, 64)
		}
		mx := sv.Cap
		if x.Max != nil {
			mx = st.intTerm(x.Max, 64)
		}
		g := And(BVSle(i64(0), lo), BVSle(lo, hi), BVSle(hi, mx), BVSle(mx, sv.Cap))
		st.oblige("safe", "safe#slice@"+site, g, x.Pos())
		st.assume(g)
		return SliceVal{Base: sv.Base, Off: BVAdd(sv.Off, lo), Len: BVSub(hi, lo), Cap: BVSub(mx, lo), Nil: And(sv.Nil), ElemT: sv.ElemT}
	case *types.Basic: // string
		sv := st.val(x.X).(StringVal)
		hi := sv.Len
		if x.High != nil {
			hi = st.intTerm(x.High, 64)
		}
		g := And(BVSle(i64(0), lo), BVSle(lo, hi), BVSle(hi, sv.Len))
		st.oblige("safe", "safe#slice@"+site, g, x.Pos())
		st.assume(g)
		return StringVal{Base: sv.Base, Off: BVAdd(sv.Off, lo), Len: BVSub(hi, lo)}
	case *types.Pointer: // *[N]T
		at := xt.Elem().Underlying().(*types.Array)
		p := st.ptr(x.X, x.Pos(), "slice")
		n := i64(at.Len())
		hi := n
		if x.High != nil {
			hi = st.intTerm(x.High, 64)
		}
		mx := n
		if x.Max != nil {
			mx = st.intTerm(x.Max, 64)
		}
		g := And(BVSle(i64(0), lo), BVSle(lo, hi), BVSle(hi, mx), BVSle(mx, n))
		st.oblige("safe", "safe#slice@"+site, g, x.Pos())
		st.assume(g)
		return SliceVal{Base: p, Off: lo, Len: BVSub(hi, lo), Cap: BVSub(mx, lo), Nil: False(), ElemT: at.Elem()}
	}
	panic("slice of " + x.X.Type().String())
}
