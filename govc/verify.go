package main

// Per-function verification driver: entry state, requires, exploration, ensures, invariants.

import (
	"os"
	"fmt"
	"go/ast"
	"go/token"
	"go/types"
	"runtime/debug"
	"sort"
	"strings"

	"golang.org/x/tools/go/ssa"
)

type FuncResult struct {
	Func      string
	Variant   string
	Obls      []*Obligation
	Paths     int
	Warnings  []string
	Error     string
	Decls     map[string]Sort
	DeclOrd   []string
	Axioms    []Term
	Contract  *Contract
	ParamSyms map[string]string
	Fx        *FuncCtx
	UFDecls   map[string]string
}

func (e *Engine) prepareContract(ct *Contract) (*ssa.Function, error) {
	fn := e.funcs[ct.FuncKey]
	if fn == nil {
		return nil, fmt.Errorf("contract at line %d: function %s not found", ct.Line, ct.FuncKey)
	}
	if ct.Info != nil {
		return fn, nil
	}
	ct.Info = &types.Info{Types: map[ast.Expr]types.TypeAndValue{}, Uses: map[*ast.Ident]types.Object{}, Defs: map[*ast.Ident]types.Object{},
		Selections: map[*ast.SelectorExpr]*types.Selection{}, Instances: map[*ast.Ident]types.Instance{}, Scopes: map[ast.Node]*types.Scope{}}
	var pos token.Pos
	if syn, ok := fn.Syntax().(*ast.FuncDecl); ok && syn.Body != nil {
		pos = syn.Body.Lbrace + 1
	} else if syn, ok := fn.Syntax().(*ast.FuncDecl); ok {
		pos = syn.End() // body-less (assembly) function: parameters are not in scope; contracts use explicit extras
	}
	var extra []string
	ghostNames := map[string]bool{}
	for i, g := range ct.Ghosts {
		extra = append(extra, g.Name+" "+g.Src)
		ghostNames[g.Name] = true
		tv, err := types.Eval(e.fset, e.tpkg, pos, "*new("+g.Src+")")
		if err != nil {
			return nil, fmt.Errorf("ghost %s: %v", g.Name, err)
		}
		ct.Ghosts[i].T = tv.Type
	}
	sig := fn.Signature
	bodyless := len(fn.Blocks) == 0
	if bodyless {
		for i := 0; i < sig.Params().Len(); i++ {
			p := sig.Params().At(i)
			extra = append(extra, p.Name()+" "+types.TypeString(p.Type(), qual(e.tpkg)))
		}
	}
	var resExtra []string
	for i := 0; i < sig.Results().Len(); i++ {
		r := sig.Results().At(i)
		ts := types.TypeString(r.Type(), qual(e.tpkg))
		resExtra = append(resExtra, fmt.Sprintf("result%d %s", i, ts))
		if bodyless && r.Name() != "" {
			resExtra = append(resExtra, r.Name()+" "+ts)
		}
	}
	if sig.Results().Len() == 1 {
		resExtra = append(resExtra, "result "+types.TypeString(sig.Results().At(0).Type(), qual(e.tpkg)))
	}
	chk := func(c *Clause, ex []string, what string) error {
		expr, err := e.checkExpr(c.Src, pos, ex, ct.Info, what != "decreases" && what != "assigns")
		if err != nil {
			return fmt.Errorf("%s %s clause %q (line %d): %v", ct.FuncKey, what, c.Src, c.Line, err)
		}
		c.Expr = expr
		c.UsesGhost = usesIdent(expr, ghostNames)
		return nil
	}
	for i := range ct.Requires {
		if err := chk(&ct.Requires[i], extra, "requires"); err != nil {
			return nil, err
		}
	}
	all := append(append([]string{}, extra...), resExtra...)
	for i := range ct.Ensures {
		if err := chk(&ct.Ensures[i], all, "ensures"); err != nil {
			// an ensures clause may mention locals declared at the top level of the body (their value at the return):
			// type-check again at the end of the body
			syn, ok := fn.Syntax().(*ast.FuncDecl)
			if !ok || syn.Body == nil || !strings.Contains(err.Error(), "undefined") {
				return nil, err
			}
			save := pos
			pos = syn.Body.Rbrace - 1
			err2 := chk(&ct.Ensures[i], all, "ensures")
			pos = save
			if err2 != nil {
				return nil, err
			}
		}
	}
	for i := range ct.Assigns {
		if err := chk(&ct.Assigns[i], extra, "assigns"); err != nil {
			return nil, err
		}
	}
	bodyPos := pos
	loopPosFor := func(k string) token.Pos {
		var ord int
		if _, err := fmt.Sscanf(k, "%d", &ord); err != nil {
			return bodyPos
		}
		tmp := &FuncCtx{eng: e, cutInfo: map[*ssa.Function]*CutInfo{}}
		ci := tmp.cuts(fn)
		for h, o := range ci.heads {
			if o == ord {
				if p := e.loopScopePos(fn, h); p.IsValid() {
					return p
				}
			}
		}
		return bodyPos
	}
	for k := range ct.Invariants {
		pos = loopPosFor(k)
		for i := range ct.Invariants[k] {
			if err := chk(&ct.Invariants[k][i], extra, "invariant"); err != nil {
				return nil, err
			}
		}
	}
	for k := range ct.CallReqs {
		// type-check in the scope of the first call through that function value
		cpos := bodyPos
		if syn, ok := fn.Syntax().(*ast.FuncDecl); ok && syn.Body != nil {
			found := false
			ast.Inspect(syn.Body, func(n ast.Node) bool {
				if ce, ok := n.(*ast.CallExpr); ok && !found {
					if id, ok := ce.Fun.(*ast.Ident); ok && id.Name == k {
						cpos = ce.Pos()
						found = true
					}
				}
				return !found
			})
		}
		pos = cpos
		for i := range ct.CallReqs[k] {
			if err := chk(&ct.CallReqs[k][i], extra, "callreq"); err != nil {
				return nil, err
			}
		}
	}
	for i := range ct.AssertAfter {
		// type-check in the scope of the matching call statement
		apos := bodyPos
		if syn, ok := fn.Syntax().(*ast.FuncDecl); ok && syn.Body != nil {
			found := false
			ast.Inspect(syn.Body, func(n ast.Node) bool {
				if ct.AssertAfter[i].Stmt {
					if as, ok := n.(*ast.AssignStmt); ok && !found && compact(e.nodeText(as)) == ct.AssertAfter[i].Match {
						apos = as.End() - 1
						found = true
						pp := e.fset.Position(as.TokPos)
						ct.AssertAfter[i].Line, ct.AssertAfter[i].File = pp.Line, pp.Filename
					}
					return !found
				}
				if ce, ok := n.(*ast.CallExpr); ok && !found && compact(e.nodeText(ce)) == ct.AssertAfter[i].Match {
					apos = ce.End() - 1
					found = true
				}
				return !found
			})
			if !found {
				return nil, fmt.Errorf("%s assertafter/assertat: no call / assignment statement with text %q", ct.FuncKey, ct.AssertAfter[i].Match)
			}
		}
		pos = apos
		if os.Getenv("GOVC_DEBUG") != "" {
			sc := e.tpkg.Scope().Innermost(apos)
			fmt.Fprintf(os.Stderr, "assertafter %q pos %v scope %v\n", ct.AssertAfter[i].Match, e.fset.Position(apos), sc)
		}
		if err := chk(&ct.AssertAfter[i].Cl, extra, "assertafter"); err != nil {
			return nil, err
		}
	}
	for k := range ct.Decreases {
		pos = loopPosFor(k)
		for i := range ct.Decreases[k] {
			if err := chk(&ct.Decreases[k][i], extra, "decreases"); err != nil {
				return nil, err
			}
		}
	}
	return fn, nil
}

func qual(p *types.Package) types.Qualifier {
	return func(o *types.Package) string {
		if o == p {
			return ""
		}
		return o.Name()
	}
}

func (c *Contract) propsOf(cl *Clause) []string {
	if len(cl.Props) > 0 {
		return cl.Props
	}
	return c.Props
}

// verify explores fn under contract ct and returns all obligations.
func (e *Engine) verify(ct *Contract) (res *FuncResult) {
	res = &FuncResult{Func: ct.FuncKey, Variant: ct.Variant, Contract: ct}
	fn, err := e.prepareContract(ct)
	if err != nil {
		res.Error = err.Error()
		return
	}
	if len(fn.Blocks) == 0 {
		res.Error = "function has no Go body (assembly): handled by asmvc"
		return
	}
	fx := &FuncCtx{eng: e, fn: fn, ct: ct, decls: map[string]Sort{}, warnings: map[string]bool{}, cutInfo: map[*ssa.Function]*CutInfo{},
		ghost: map[string]Value{}, params: map[string]Value{}, siteName: map[ssa.Instruction]string{}, maxPaths: 20000}
	if v, ok := ct.Opts["maxpaths"]; ok {
		fmt.Sscan(v, &fx.maxPaths)
	}
	defer func() {
		if r := recover(); r != nil {
			if se, ok := r.(specError); ok {
				res.Error = "contract evaluation: " + string(se)
			} else {
				res.Error = fmt.Sprintf("engine: %v\n%s", r, debug.Stack())
			}
		}
		res.Obls = fx.obls
		res.Fx = fx
		res.UFDecls = fx.ufDecls
		res.Paths = fx.npaths
		res.Decls = fx.decls
		res.DeclOrd = fx.declOrd
		res.Axioms = fx.axioms
		for w := range fx.warnings {
			res.Warnings = append(res.Warnings, w)
		}
		sort.Strings(res.Warnings)
		if fx.aborted != "" && res.Error == "" {
			res.Error = fx.aborted
		}
	}()

	st := &State{fx: fx, heap: map[*Object]Value{}}
	fr := &Frame{fn: fn, ct: ct, vals: map[ssa.Value]Value{}, blk: fn.Blocks[0], visited: map[*ssa.BasicBlock]*loopVisit{}, locals: map[string]Value{}}
	st.stack = []*Frame{fr}
	byName := map[string]*ssa.Parameter{}
	for _, p := range fn.Params {
		v := fx.Fresh(p.Type(), p.Name())
		byName[p.Name()] = p
		fr.vals[p] = v
	}
	// receivers and parameters listed under nonnil are non-nil
	nonnil := map[string]bool{}
	for _, n := range ct.NonNil {
		nonnil[n] = true
	}
	if fn.Signature.Recv() != nil && len(fn.Params) > 0 {
		nonnil[fn.Params[0].Name()] = true
	}
	for _, p := range fn.Params {
		if pv, ok := fr.vals[p].(PtrVal); ok && nonnil[p.Name()] {
			pv.Nil = False()
			fr.vals[p] = fx.materialise(pv)
		}
	}
	// alias variants: bind second pointer parameter to the first
	for _, al := range ct.Alias {
		a, b := byName[al[0]], byName[al[1]]
		if a == nil || b == nil {
			res.Error = "alias: unknown parameter"
			return
		}
		bv := fr.vals[b].(PtrVal)
		bv.Nil = False()
		bv = fx.materialise(bv)
		fr.vals[b] = bv
		fr.vals[a] = bv
	}
	for _, p := range fn.Params {
		fx.params[p.Name()] = fr.vals[p]
	}
	res.ParamSyms = map[string]string{}
	for _, g := range ct.Ghosts {
		so, ok := sortOfType(g.T)
		if !ok {
			res.Error = "ghost of unsupported type " + g.Src
			return
		}
		fx.ghost[g.Name] = fx.FreshSym("ghost."+g.Name, so)
	}

	env := fx.specEnv(st, nil)
	for i := range ct.Requires {
		c := &ct.Requires[i]
		st.assume(env.evalBool(c.Expr))
	}
	fx.entry = st.snapshot()

	// vacuity canary: the precondition must be satisfiable
	st.obligeCanary("canary#requires-satisfiable")

	onReturn := func(rs *State, results []Value) {
		env := fx.specEnv(rs, results)
		// locals of the outermost frame (not the parameters: those keep their entry values in ensures clauses)
		if len(rs.stack) == 1 {
			for name, v := range rs.top().locals {
				if _, isParam := fx.params[name]; isParam {
					continue
				}
				if _, isGhost := fx.ghost[name]; isGhost {
					continue
				}
				if lp, ok := v.(localAddr); ok {
					if env.addrs == nil {
						env.addrs = map[string]PtrVal{}
					}
					env.addrs[name] = lp.P
				} else if _, bound := env.vars[name]; !bound {
					env.vars[name] = v
				}
			}
		}
		for i := range ct.Ensures {
			c := &ct.Ensures[i]
			g := env.evalBool(c.Expr)
			rs.obligeP("ensures", "ensures#"+c.Name, g, ct.propsOf(c), token.NoPos)
		}
		if len(ct.Ensures) > 0 {
			rs.obligeCanary("canary#return-reachable")
		}
	}
	fx.explore(st, onReturn)
	// vacuity guard: every assertafter clause must have been evaluated at least once
	for i := range ct.AssertAfter {
		a := &ct.AssertAfter[i]
		seen := false
		for _, o := range fx.obls {
			if o.Name == "assert#"+a.Cl.Name {
				seen = true
				break
			}
		}
		if !seen {
			st.obligeP("assert", "assert#"+a.Cl.Name, False(), ct.propsOf(&a.Cl), token.NoPos)
			fx.warn("assertafter clause %s (%s) was never evaluated: no explored path executes the matching call", a.Cl.Name, a.Match)
		}
	}
	return
}

func (fx *FuncCtx) specEnv(st *State, results []Value) *SpecEnv {
	env := &SpecEnv{fx: fx, st: st, old: fx.entry, vars: map[string]Value{}, info: fx.ct.Info, ct: fx.ct}
	for k, v := range fx.params {
		env.vars[k] = v
	}
	for k, v := range fx.ghost {
		env.vars[k] = v
	}
	env.entryVars = fx.params
	if results != nil {
		bindResults(env, fx.fn.Signature, results)
	}
	return env
}

func (st *State) obligeP(kind, name string, goal Term, props []string, pos token.Pos) {
	n := len(st.fx.obls)
	st.oblige(kind, name, goal, pos)
	if len(st.fx.obls) > n {
		st.fx.obls[len(st.fx.obls)-1].Props = props
	}
}

func (st *State) obligeCanary(name string) {
	n := len(st.fx.obls)
	st.oblige("canary", name, False(), token.NoPos)
	if len(st.fx.obls) > n {
		st.fx.obls[len(st.fx.obls)-1].Canary = true
	}
}

// loop clause lookup: by ordinal ("0") or by label ("@name")
func loopKeys(blk *ssa.BasicBlock, ord int) []string {
	keys := []string{fmt.Sprint(ord)}
	if blk.Comment != "" {
		keys = append(keys, "@"+blk.Comment)
	}
	return keys
}

func (fx *FuncCtx) loopClauses(f *Frame, blk *ssa.BasicBlock, ord int, m func(*Contract) map[string][]Clause) []*Clause {
	if f.ct == nil {
		return nil
	}
	var out []*Clause
	mm := m(f.ct)
	for _, k := range loopKeys(blk, ord) {
		for i := range mm[k] {
			out = append(out, &mm[k][i])
		}
	}
	return out
}

func (fx *FuncCtx) frameEnv(st *State, f *Frame) *SpecEnv {
	if len(st.stack) == 1 || f.ct == fx.ct {
		return fx.specEnv(st, nil)
	}
	if f.ct == nil {
		return &SpecEnv{fx: fx, st: st, old: fx.entry, vars: map[string]Value{}, info: fx.ct.Info, ct: fx.ct}
	}
	// inlined frame: parameters of the inlined function
	env := &SpecEnv{fx: fx, st: st, old: f.entry, vars: map[string]Value{}, info: f.ct.Info, ct: f.ct}
	if env.old == nil {
		env.old = fx.entry
	}
	env.entryVars = map[string]Value{}
	for _, p := range f.fn.Params {
		env.vars[p.Name()] = f.vals[p]
		env.entryVars[p.Name()] = f.vals[p]
	}
	return env
}

func (fx *FuncCtx) assertInvariants(st *State, f *Frame, ord int, phase string, lv *loopVisit) {
	if st.discover != nil {
		return
	}
	blk := f.blk
	env := fx.frameEnv(st, f)
	fx.bindLoopLocals(env, st, f)
	for _, c := range fx.loopClauses(f, blk, ord, func(c *Contract) map[string][]Clause { return c.Invariants }) {
		g := env.evalBool(c.Expr)
		st.obligeP("invariant", fmt.Sprintf("loop%d.invariant#%s.%s", ord, c.Name, phase), g, f.ct.propsOf(c), token.NoPos)
	}
	if lv != nil {
		ds := fx.loopClauses(f, blk, ord, func(c *Contract) map[string][]Clause { return c.Decreases })
		for i, c := range ds {
			v := env.eval(c.Expr).(Term)
			old := lv.variant[i]
			g := And(BVSle(BVConst(v.So.W, 0), old), BVSlt(v, old))
			st.obligeP("decreases", fmt.Sprintf("loop%d.decreases#%s", ord, c.Name), g, f.ct.propsOf(c), token.NoPos)
		}
		if len(ds) == 0 && f.ct != nil && f.ct.Safe && f.ct.Opts["termination"] != "off" && !isRangeLoop(blk) {
			// a safe function must give a variant for every loop
			st.obligeP("decreases", fmt.Sprintf("loop%d.decreases#missing", ord), False(), f.ct.SafeProps, token.NoPos)
		}
		st.obligeCanary(fmt.Sprintf("canary#loop%d.backedge-reachable", ord))
	}
}

// isRangeLoop: the loop is a range over a slice/array/string (its head has the compiler-generated
// index phi). Such loops terminate by construction: the hidden index goes from 0 to len-1.
func isRangeLoop(blk *ssa.BasicBlock) bool {
	for _, in := range blk.Instrs {
		if phi, ok := in.(*ssa.Phi); ok && phi.Comment == "rangeindex" {
			return true
		}
		// range over a map or string (iterator Next): terminates by the language semantics (every key is produced at
		// most once; channels are not iterated this way)
		if nx, ok := in.(*ssa.Next); ok {
			if rg, ok := nx.Iter.(*ssa.Range); ok {
				switch rg.X.Type().Underlying().(type) {
				case *types.Map, *types.Basic:
					return true
				}
			}
		}
	}
	return false
}

func (fx *FuncCtx) assumeInvariants(st *State, f *Frame, ord int, lv *loopVisit) {
	blk := f.blk
	// the hidden range index starts at -1 and is only incremented while below the length
	for _, in := range blk.Instrs {
		if phi, ok := in.(*ssa.Phi); ok && phi.Comment == "rangeindex" {
			if t, ok := f.vals[phi].(Term); ok {
				st.assume(And(BVSle(BVConst(64, -1), t), BVSlt(t, BVConstU(64, 1<<maxSliceLog))))
			}
		}
	}
	env := fx.frameEnv(st, f)
	fx.bindLoopLocals(env, st, f)
	for _, c := range fx.loopClauses(f, blk, ord, func(c *Contract) map[string][]Clause { return c.Invariants }) {
		st.assume(env.evalBool(c.Expr))
	}
	for _, c := range fx.loopClauses(f, blk, ord, func(c *Contract) map[string][]Clause { return c.Decreases }) {
		lv.variant = append(lv.variant, env.eval(c.Expr).(Term))
	}
}

// bindLoopLocals makes local variables visible to loop clauses. Locals are tracked by
// name from DebugRef instructions (the package is built with ssa.GlobalDebug); phis at
// the head carry the source variable's name in their comment.
func (fx *FuncCtx) bindLoopLocals(env *SpecEnv, st *State, f *Frame) {
	isPhi := map[string]bool{}
	for _, in := range f.blk.Instrs {
		if phi, ok := in.(*ssa.Phi); ok && phi.Comment != "" {
			if v, ok := f.vals[phi]; ok {
				f.locals[phi.Comment] = v
				isPhi[phi.Comment] = true
			}
		}
	}
	// values recorded inside the loop body are from an earlier iteration: not visible at the head
	if body := fx.cuts(f.fn).body[f.blk]; body != nil {
		for name, b := range f.localBlk {
			if body[b] && !isPhi[name] {
				if _, isAddr := f.locals[name].(localAddr); !isAddr {
					delete(f.locals, name)
				}
			}
		}
	}
	fx.bindLocals(env, st, f)
}

func (fx *FuncCtx) bindLocals(env *SpecEnv, st *State, f *Frame) {
	for name, v := range f.locals {
		if _, isGhost := fx.ghost[name]; isGhost && f.ct == fx.ct {
			continue
		}
		// loop clauses see the current value of every variable, reassigned parameters included
		if lp, ok := v.(localAddr); ok {
			if env.addrs == nil {
				env.addrs = map[string]PtrVal{}
			}
			env.addrs[name] = lp.P // read through the state in force (current or old) when evaluated
		} else {
			env.vars[name] = v
		}
	}
}

type localAddr struct{ P PtrVal }

var _ = strings.Contains

// loopScopePos returns a position inside the body of the source loop statement whose head is blk,
// so that loop clauses can mention variables declared in the for statement.
func (e *Engine) loopScopePos(fn *ssa.Function, head *ssa.BasicBlock) token.Pos {
	syn, ok := fn.Syntax().(*ast.FuncDecl)
	if !ok || syn.Body == nil {
		return token.NoPos
	}
	var p token.Pos
	for _, in := range head.Instrs {
		if _, isPhi := in.(*ssa.Phi); isPhi {
			continue
		}
		if _, isDbg := in.(*ssa.DebugRef); isDbg {
			continue
		}
		if in.Pos().IsValid() {
			p = in.Pos()
			break
		}
	}
	if !p.IsValid() {
		return token.NoPos
	}
	var best ast.Node
	var bestBody *ast.BlockStmt
	ast.Inspect(syn.Body, func(n ast.Node) bool {
		if n == nil {
			return false
		}
		var body *ast.BlockStmt
		switch x := n.(type) {
		case *ast.FuncLit:
			return false
		case *ast.ForStmt:
			body = x.Body
		case *ast.RangeStmt:
			body = x.Body
		}
		if body != nil && n.Pos() <= p && p <= n.End() {
			if best == nil || (n.End()-n.Pos()) < (best.End()-best.Pos()) {
				best, bestBody = n, body
			}
		}
		return true
	})
	if bestBody == nil {
		return token.NoPos
	}
	return bestBody.Lbrace + 1
}

// afterCall evaluates the ghost assertions attached to a call statement of the outermost function.
func (fx *FuncCtx) afterCall(st *State, call *ssa.Call) {
	if st.discover != nil || len(st.stack) != 1 {
		return
	}
	f := st.top()
	if f.ct == nil || len(f.ct.AssertAfter) == 0 {
		return
	}
	txt := fx.siteText(f.fn, call.Pos(), "call")
	for i := range f.ct.AssertAfter {
		a := &f.ct.AssertAfter[i]
		if a.Stmt || a.Match != txt {
			continue
		}
		env := fx.frameEnv(st, f)
		fx.bindLocals(env, st, f)
		st.obligeP("assert", "assert#"+a.Cl.Name, env.evalBool(a.Cl.Expr), f.ct.propsOf(&a.Cl), call.Pos())
	}
}

// afterStore evaluates the assertat clauses attached to the assignment statement a store belongs to.
func (fx *FuncCtx) afterStore(st *State, x *ssa.Store) {
	if st.discover != nil || len(st.stack) != 1 {
		return
	}
	f := st.top()
	if f.ct == nil || len(f.ct.AssertAfter) == 0 || !x.Pos().IsValid() {
		return
	}
	pp := fx.eng.fset.Position(x.Pos())
	for i := range f.ct.AssertAfter {
		a := &f.ct.AssertAfter[i]
		if !a.Stmt || a.Line != pp.Line || a.File != pp.Filename {
			continue
		}
		env := fx.frameEnv(st, f)
		fx.bindLocals(env, st, f)
		st.obligeP("assert", "assert#"+a.Cl.Name, env.evalBool(a.Cl.Expr), f.ct.propsOf(&a.Cl), x.Pos())
	}
}
