package main

// Contract directives (//@ lines in the verif-tagged contract file) and the
// evaluator that turns contract expressions (Go syntax, type-checked by go/types
// in the scope of the real function) into SMT terms.

import (
	"fmt"
	"go/ast"
	"go/constant"
	"go/parser"
	"go/token"
	"go/types"
	"math"
	"math/big"
	"regexp"
	"strconv"
	"strings"

	"golang.org/x/tools/go/ssa"
)

type Clause struct {
	Name      string
	Props     []string
	Src       string
	Expr      ast.Expr
	UsesGhost bool
	Line      int
}

type Ghost struct {
	Name string
	T    types.Type
	Src  string
}

type Contract struct {
	FuncKey    string
	Variant    string
	Props      []string
	Ghosts     []Ghost
	Requires   []Clause
	Ensures    []Clause
	Invariants map[string][]Clause // loop key (ordinal or @label) -> clauses
	Decreases  map[string][]Clause
	Assigns    []Clause
	Safe       bool
	SafeProps  []string
	Summary    bool
	Alias      [][2]string
	NonNil     []string
	Trusted    string // non-empty: the contract is not verified by govc (reason / discharging engine); used at call sites only
	AssertAfter []AfterClause // ghost assertions evaluated right after a call statement whose source text matches
	CallReqs   map[string][]Clause // callback parameter name -> ghost preconditions asserted at each call through it
	Info       *types.Info
	Line       int
	Opts       map[string]string
}

type AfterClause struct {
	Match string // compacted source text of the call expression (assertafter) or assignment statement (assertat)
	Cl    Clause
	Stmt  bool // assertat: evaluated after the store(s) of the matching assignment statement
	Line  int  // source line of the matched assignment (assertat)
	File  string
}

type TableFact struct {
	Global string
	Cl     Clause
	Info   *types.Info
	OK     bool
	Detail string
}

type ExternAssume struct {
	Src  string
	Expr ast.Expr
	Info *types.Info
}

var kwRe = regexp.MustCompile(`^(func|props|variant|ghost|requires|ensures|invariant|decreases|assigns|safe|summary|alias|nonnil|extern|opt|lemma|assume|callreq|trusted|uninterpreted|assertafter|assertat|tablefact|typeinv|transition|codec|globals)\b`)
var tagRe = regexp.MustCompile(`^\[([A-Za-z0-9, ]+)\]\s*`)
var nameRe = regexp.MustCompile(`^([a-zA-Z_][a-zA-Z0-9_\-]*):\s+`)

type rawDirective struct {
	kw   string
	rest string
	line int
}

// parseDirectives extracts //@ directives from the contract file's comments.
func parseDirectives(fset *token.FileSet, file *ast.File) []rawDirective {
	var out []rawDirective
	for _, cg := range file.Comments {
		for _, c := range cg.List {
			if !strings.HasPrefix(c.Text, "//@") {
				continue
			}
			txt := strings.TrimSpace(c.Text[3:])
			if txt == "" {
				continue
			}
			line := fset.Position(c.Pos()).Line
			if m := kwRe.FindString(txt); m != "" {
				out = append(out, rawDirective{kw: m, rest: strings.TrimSpace(txt[len(m):]), line: line})
			} else if len(out) > 0 {
				out[len(out)-1].rest += " " + txt
			}
		}
	}
	return out
}

func splitTagName(s string) (props []string, name string, rest string) {
	rest = s
	if m := tagRe.FindStringSubmatch(rest); m != nil {
		for _, p := range strings.Split(m[1], ",") {
			props = append(props, strings.TrimSpace(p))
		}
		rest = rest[len(m[0]):]
	}
	if m := nameRe.FindStringSubmatch(rest); m != nil {
		name = m[1]
		rest = rest[len(m[0]):]
	}
	return
}

// loadContracts builds contracts from directives and type-checks every expression.
func (e *Engine) loadContracts(file *ast.File) error {
	ds := parseDirectives(e.fset, file)
	var cur *Contract
	counts := map[string]int{}
	for _, d := range ds {
		switch d.kw {
		case "func":
			parts := strings.Fields(d.rest)
			cur = &Contract{FuncKey: parts[0], Invariants: map[string][]Clause{}, Decreases: map[string][]Clause{}, Line: d.line, Opts: map[string]string{}}
			for i := 1; i+1 < len(parts); i += 2 {
				if parts[i] == "variant" {
					cur.Variant = parts[i+1]
				}
			}
			e.contracts = append(e.contracts, cur)
			counts = map[string]int{}
		case "tablefact":
			// tablefact <global> [props] name: <expr over c>   -- checked for every index by evaluation, then available as a fact
			p := strings.SplitN(d.rest, " ", 2)
			if len(p) != 2 {
				return fmt.Errorf("line %d: tablefact GLOBAL name: expr", d.line)
			}
			props, name, rest := splitTagName(strings.TrimSpace(p[1]))
			e.tableFacts = append(e.tableFacts, &TableFact{Global: p[0], Cl: Clause{Name: name, Props: props, Src: rest, Line: d.line}})
		case "globals":
			// reviewed set of package-level variables: decided by the frame engine (globals#reviewed-set)
		case "codec":
			// serialized-format table: decided by the frame engine (codec#widths-agree)
		case "transition":
			// stage-2 automaton table: decided by the frame engine (automaton#transitions-equal-grammar)
		case "typeinv":
			// typeinv <Type> name: <expr over v>   -- ASSUMED for every value of that element type read from a slice/array of
			// structs (the memory model keeps such arrays opaque); listed as an assumption, never proved
			p := strings.SplitN(d.rest, " ", 2)
			if len(p) != 2 {
				return fmt.Errorf("line %d: typeinv TYPE name: expr", d.line)
			}
			props, name, rest := splitTagName(strings.TrimSpace(p[1]))
			e.typeInvs = append(e.typeInvs, &TableFact{Global: p[0], Cl: Clause{Name: name, Props: props, Src: rest, Line: d.line}})
		case "uninterpreted":
			for _, n := range strings.Fields(d.rest) {
				e.uninterpSpec[n] = true
			}
		case "extern":
			// extern <full name> ensures <expr over r0,r1..>
			parts := strings.SplitN(d.rest, " ensures ", 2)
			if len(parts) != 2 {
				return fmt.Errorf("line %d: bad extern directive", d.line)
			}
			e.externRaw = append(e.externRaw, [2]string{strings.TrimSpace(parts[0]), strings.TrimSpace(parts[1])})
		default:
			if cur == nil {
				return fmt.Errorf("line %d: directive %s outside func block", d.line, d.kw)
			}
			switch d.kw {
			case "variant":
				cur.Variant = d.rest
			case "props":
				cur.Props = strings.Fields(d.rest)
			case "ghost":
				p := strings.Fields(d.rest)
				if len(p) != 2 {
					return fmt.Errorf("line %d: ghost NAME TYPE", d.line)
				}
				cur.Ghosts = append(cur.Ghosts, Ghost{Name: p[0], Src: p[1]})
			case "safe":
				cur.Safe = true
				props, _, _ := splitTagName(d.rest)
				cur.SafeProps = props
			case "summary":
				cur.Summary = true
			case "trusted":
				cur.Trusted = d.rest
				if cur.Trusted == "" {
					cur.Trusted = "trusted"
				}
				cur.Summary = true
			case "alias":
				p := strings.Fields(d.rest)
				cur.Alias = append(cur.Alias, [2]string{p[0], p[1]})
			case "nonnil":
				cur.NonNil = append(cur.NonNil, strings.Fields(d.rest)...)
			case "opt":
				p := strings.Fields(d.rest)
				if len(p) == 2 {
					cur.Opts[p[0]] = p[1]
				}
			case "requires", "ensures", "assigns":
				props, name, rest := splitTagName(d.rest)
				counts[d.kw]++
				if name == "" {
					name = strconv.Itoa(counts[d.kw])
				}
				cl := Clause{Name: name, Props: props, Src: rest, Line: d.line}
				switch d.kw {
				case "requires":
					cur.Requires = append(cur.Requires, cl)
				case "ensures":
					cur.Ensures = append(cur.Ensures, cl)
				case "assigns":
					for _, it := range splitTop(rest) {
						cur.Assigns = append(cur.Assigns, Clause{Name: it, Src: it, Line: d.line})
					}
				}
			case "callreq":
				p := strings.SplitN(d.rest, " ", 2)
				if len(p) != 2 {
					return fmt.Errorf("line %d: callreq FUNCVALUE expr", d.line)
				}
				props, name, rest := splitTagName(strings.TrimSpace(p[1]))
				counts[d.kw+p[0]]++
				if name == "" {
					name = strconv.Itoa(counts[d.kw+p[0]])
				}
				if cur.CallReqs == nil {
					cur.CallReqs = map[string][]Clause{}
				}
				cur.CallReqs[p[0]] = append(cur.CallReqs[p[0]], Clause{Name: name, Props: props, Src: rest, Line: d.line})
			case "assertafter", "assertat":
				// assertafter "<call text>" [props] name: expr ; assertat "<assignment text>" [props] name: expr
				delim := "\""
				if strings.HasPrefix(d.rest, "`") {
					delim = "`"
				}
				q1 := strings.Index(d.rest, delim)
				q2 := strings.Index(d.rest[q1+1:], delim)
				if q1 != 0 || q2 < 0 {
					return fmt.Errorf("line %d: assertafter \"call text\" expr", d.line)
				}
				match := compact(d.rest[1 : 1+q2])
				props, name, rest := splitTagName(strings.TrimSpace(d.rest[q2+2:]))
				counts[d.kw]++
				if name == "" {
					name = strconv.Itoa(counts[d.kw])
				}
				cur.AssertAfter = append(cur.AssertAfter, AfterClause{Match: match, Stmt: d.kw == "assertat", Cl: Clause{Name: name, Props: props, Src: rest, Line: d.line}})
			case "invariant", "decreases":
				p := strings.SplitN(d.rest, " ", 2)
				if len(p) != 2 {
					return fmt.Errorf("line %d: %s LOOP expr", d.line, d.kw)
				}
				key := p[0]
				props, name, rest := splitTagName(strings.TrimSpace(p[1]))
				counts[d.kw+key]++
				if name == "" {
					name = strconv.Itoa(counts[d.kw+key])
				}
				cl := Clause{Name: name, Props: props, Src: rest, Line: d.line}
				if d.kw == "invariant" {
					cur.Invariants[key] = append(cur.Invariants[key], cl)
				} else {
					cur.Decreases[key] = append(cur.Decreases[key], cl)
				}
			}
		}
	}
	return nil
}

func splitTop(s string) []string {
	var out []string
	depth := 0
	start := 0
	for i, c := range s {
		switch c {
		case '(', '[':
			depth++
		case ')', ']':
			depth--
		case ',':
			if depth == 0 {
				out = append(out, strings.TrimSpace(s[start:i]))
				start = i + 1
			}
		}
	}
	if strings.TrimSpace(s[start:]) != "" {
		out = append(out, strings.TrimSpace(s[start:]))
	}
	return out
}

// checkExpr parses src and type-checks it in the scope of fn (at the start of its body).
// Ghosts and results are made visible by wrapping the expression in a function literal.
func (e *Engine) checkExpr(src string, pos token.Pos, extra []string, info *types.Info, wantBool bool) (ast.Expr, error) {
	ret := "bool"
	if !wantBool {
		ret = "interface{}"
	}
	wrapped := "func(" + strings.Join(extra, ", ") + ") " + ret + " { return " + src + " }"
	ex, err := parser.ParseExprFrom(e.fset, "contract", wrapped, 0)
	if err != nil {
		return nil, err
	}
	if err := types.CheckExpr(e.fset, e.tpkg, pos, ex, info); err != nil {
		return nil, err
	}
	fl := ex.(*ast.FuncLit)
	return fl.Body.List[0].(*ast.ReturnStmt).Results[0], nil
}

func usesIdent(ex ast.Expr, names map[string]bool) bool {
	found := false
	ast.Inspect(ex, func(n ast.Node) bool {
		if id, ok := n.(*ast.Ident); ok && names[id.Name] {
			found = true
		}
		return !found
	})
	return found
}

// ---------------------------------------------------------------------------
// evaluation

type SpecEnv struct {
	fx    *FuncCtx
	st    *State // current state
	old   *State // entry / pre-call state for old()
	vars  map[string]Value
	info  *types.Info
	ct    *Contract
	depth int
	addrs map[string]PtrVal // addresses of address-taken locals
	entryVars map[string]Value // parameter values at function entry (old(p) of a reassigned parameter p)
}

func (env *SpecEnv) child() *SpecEnv {
	n := *env
	n.vars = map[string]Value{}
	for k, v := range env.vars {
		n.vars[k] = v
	}
	return &n
}

func (env *SpecEnv) fail(format string, a ...interface{}) {
	panic(specError(fmt.Sprintf(format, a...)))
}

type specError string

func (env *SpecEnv) evalBool(ex ast.Expr) Term {
	v := env.eval(ex)
	t, ok := v.(Term)
	if !ok || t.So.K != KBool {
		env.fail("expression %s is not boolean (%T)", exprString(env.fx.eng.fset, ex), v)
	}
	return t
}

func exprString(fset *token.FileSet, ex ast.Expr) string {
	return types.ExprString(ex)
}

func (env *SpecEnv) typeOf(ex ast.Expr) types.Type {
	if tv, ok := env.info.Types[ex]; ok {
		return tv.Type
	}
	if id, ok := ex.(*ast.Ident); ok {
		if o := env.info.Uses[id]; o != nil {
			return o.Type()
		}
		if o := env.info.Defs[id]; o != nil {
			return o.Type()
		}
	}
	return nil
}

func (env *SpecEnv) constOf(ex ast.Expr) (Value, bool) {
	tv, ok := env.info.Types[ex]
	if !ok || tv.Value == nil {
		return nil, false
	}
	t := tv.Type
	if b, ok := t.Underlying().(*types.Basic); ok && b.Info()&types.IsUntyped != 0 {
		t = types.Default(t)
	}
	return env.fx.constOfType(tv.Value, t), true
}

func (fx *FuncCtx) constOfType(v constant.Value, t types.Type) Value {
	if isStringType(t) {
		return OpaqueVal{T: t, Desc: "strconst"}
	}
	so, ok := sortOfType(t)
	if !ok {
		return OpaqueVal{T: t}
	}
	switch so.K {
	case KBool:
		return BoolC(constant.BoolVal(v))
	case KFP:
		f, _ := constant.Float64Val(constant.ToFloat(v))
		return FPConstBits(math.Float64bits(f))
	default:
		iv := constant.ToInt(v)
		if iv.Kind() != constant.Int {
			f, _ := constant.Float64Val(v)
			return BVConstBig(so.W, big.NewInt(int64(f)))
		}
		return BVConstBig(so.W, bigOf(iv))
	}
}

func (env *SpecEnv) eval(ex ast.Expr) Value {
	fx := env.fx
	if c, ok := env.constOf(ex); ok {
		if _, isOpaque := c.(OpaqueVal); !isOpaque {
			return c
		}
	}
	switch x := ex.(type) {
	case *ast.ParenExpr:
		return env.eval(x.X)
	case *ast.Ident:
		if v, ok := env.vars[x.Name]; ok {
			return v
		}
		if p, ok := env.addrs[x.Name]; ok {
			return env.st.Load(p, nil)
		}
		switch x.Name {
		case "true":
			return True()
		case "false":
			return False()
		case "nil":
			return OpaqueVal{Desc: "nil"}
		}
		obj := env.info.Uses[x]
		if gv, ok := obj.(*types.Var); ok && gv.Pkg() != nil && gv.Parent() == gv.Pkg().Scope() {
			// package-level variable
			g := fx.eng.spkg.Var(gv.Name())
			if g != nil {
				p := PtrVal{Obj: fx.eng.globalObject(fx, g), Nil: False()}
				return env.st.Load(p, gv.Type())
			}
		}
		env.fail("unknown identifier %s", x.Name)
	case *ast.BasicLit:
		env.fail("literal without constant value: %s", x.Value)
	case *ast.SelectorExpr:
		// package-qualified handled by constOf; field selection here
		if sel, ok := env.info.Selections[x]; ok {
			v := env.eval(x.X)
			idx := sel.Index()
			for _, k := range idx {
				v = env.deref(v)
				sv, ok := v.(StructVal)
				if !ok {
					env.fail("selector %s on %T", x.Sel.Name, v)
				}
				v = sv.Fields[k]
			}
			return v
		}
		env.fail("unsupported selector %s", types.ExprString(x))
	case *ast.StarExpr:
		return env.deref(env.eval(x.X))
	case *ast.IndexExpr:
		base := env.eval(x.X)
		idx := env.intArg(x.Index)
		return env.indexValue(base, idx)
	case *ast.SliceExpr:
		base := env.eval(x.X)
		sv, ok := base.(SliceVal)
		if !ok {
			env.fail("slice expression on %T", base)
		}
		lo := i64(0)
		if x.Low != nil {
			lo = env.intArg(x.Low)
		}
		hi := sv.Len
		if x.High != nil {
			hi = env.intArg(x.High)
		}
		return SliceVal{Base: sv.Base, Off: BVAdd(sv.Off, lo), Len: BVSub(hi, lo), Cap: BVSub(sv.Cap, lo), Nil: sv.Nil, ElemT: sv.ElemT}
	case *ast.UnaryExpr:
		if x.Op == token.AND {
			if id, ok := x.X.(*ast.Ident); ok {
				if p, ok := env.addrs[id.Name]; ok {
					return p
				}
			}
			env.fail("address-of %s in contract: only address-taken locals are supported", types.ExprString(x.X))
		}
		v := env.eval(x.X)
		switch x.Op {
		case token.NOT:
			return Not(v.(Term))
		case token.SUB:
			t := v.(Term)
			if t.So.K == KFP {
				return Term{S: "(fp.neg " + t.S + ")", So: SFP}
			}
			return BVNeg(t)
		case token.XOR:
			return BVNot(v.(Term))
		}
	case *ast.BinaryExpr:
		return env.binary(x)
	case *ast.CallExpr:
		return env.callExpr(x)
	}
	env.fail("unsupported contract expression %s (%T)", types.ExprString(ex), ex)
	return nil
}

func (env *SpecEnv) deref(v Value) Value {
	if p, ok := v.(PtrVal); ok {
		if p.Obj == nil && p.Lazy == nil {
			// definitely-nil pointer (guarded by an implication in well-formed contracts): any value
			if p.Elem == nil {
				env.fail("dereference of nil pointer in contract")
			}
			return env.fx.Fresh(p.Elem, "nilderef")
		}
		return env.st.Load(p, nil)
	}
	return v
}

func (env *SpecEnv) intArg(ex ast.Expr) Term {
	v := env.eval(ex)
	t, ok := v.(Term)
	if !ok {
		env.fail("expected integer, got %T for %s", v, types.ExprString(ex))
	}
	return Resize(t, 64, isSignedType(env.typeOf(ex)))
}

func (env *SpecEnv) indexValue(base Value, idx Term) Value {
	fx := env.fx
	switch b := base.(type) {
	case SliceVal:
		a := env.st.baseArr(b.Base)
		return fx.project(a, PathElem{Field: -1, Idx: BVAdd(b.Off, idx)})
	case StringVal:
		a := env.st.baseArr(b.Base)
		return fx.project(a, PathElem{Field: -1, Idx: BVAdd(b.Off, idx)})
	case ArrayVal:
		return fx.project(b, PathElem{Field: -1, Idx: idx})
	case PtrVal:
		if bp := fx.materialise(b); bp.Obj != nil && fx.factObjs[bp.Obj] != nil && len(bp.Path) == 0 {
			for _, inst := range fx.tableInstance(bp.Obj, idx) {
				fx.axiom(inst)
			}
		}
		return env.indexValue(env.deref(b), idx)
	}
	env.fail("index of %T", base)
	return nil
}

func (env *SpecEnv) binary(x *ast.BinaryExpr) Value {
	switch x.Op {
	case token.LAND:
		return And(env.evalBool(x.X), env.evalBool(x.Y))
	case token.LOR:
		return Or(env.evalBool(x.X), env.evalBool(x.Y))
	}
	a, b := env.eval(x.X), env.eval(x.Y)
	at := env.typeOf(x.X)
	switch av := a.(type) {
	case Term:
		bv, ok := b.(Term)
		if !ok {
			env.fail("binary operands mismatch in %s", types.ExprString(x))
		}
		if av.So.K == KBV && bv.So.K == KBV && av.So.W != bv.So.W {
			// untyped constant operand: resize to the other side (shifts excepted)
			if x.Op != token.SHL && x.Op != token.SHR {
				if av.C != nil {
					av = Resize(av, bv.So.W, true)
					at = env.typeOf(x.Y)
				} else if bv.C != nil {
					bv = Resize(bv, av.So.W, true)
				}
			}
		}
		sg := isSignedType(at)
		switch av.So.K {
		case KBool:
			switch x.Op {
			case token.EQL:
				return Eq(av, bv)
			case token.NEQ:
				return Not(Eq(av, bv))
			}
		case KFP:
			m := map[token.Token]string{token.LSS: "fp.lt", token.LEQ: "fp.leq", token.GTR: "fp.gt", token.GEQ: "fp.geq", token.EQL: "fp.eq"}
			if op, ok := m[x.Op]; ok {
				return FPCmp(op, av, bv)
			}
			if x.Op == token.NEQ {
				return Not(FPCmp("fp.eq", av, bv))
			}
			m2 := map[token.Token]string{token.ADD: "fp.add", token.SUB: "fp.sub", token.MUL: "fp.mul", token.QUO: "fp.div"}
			if op, ok := m2[x.Op]; ok {
				return FPBin(op, av, bv)
			}
		case KBV:
			switch x.Op {
			case token.ADD:
				return BVAdd(av, bv)
			case token.SUB:
				return BVSub(av, bv)
			case token.MUL:
				return BVMul(av, bv)
			case token.QUO:
				if sg {
					return BVSdiv(av, bv)
				}
				return BVUdiv(av, bv)
			case token.REM:
				if sg {
					return BVSrem(av, bv)
				}
				return BVUrem(av, bv)
			case token.AND:
				return BVAnd(av, bv)
			case token.OR:
				return BVOr(av, bv)
			case token.XOR:
				return BVXor(av, bv)
			case token.AND_NOT:
				return BVAnd(av, BVNot(bv))
			case token.SHL:
				return BVShl(av, Resize(bv, av.So.W, false))
			case token.SHR:
				if sg {
					return BVAshr(av, Resize(bv, av.So.W, false))
				}
				return BVLshr(av, Resize(bv, av.So.W, false))
			case token.EQL:
				return Eq(av, bv)
			case token.NEQ:
				return Not(Eq(av, bv))
			case token.LSS:
				if sg {
					return BVSlt(av, bv)
				}
				return BVUlt(av, bv)
			case token.LEQ:
				if sg {
					return BVSle(av, bv)
				}
				return BVUle(av, bv)
			case token.GTR:
				if sg {
					return BVSlt(bv, av)
				}
				return BVUlt(bv, av)
			case token.GEQ:
				if sg {
					return BVSle(bv, av)
				}
				return BVUle(bv, av)
			}
		}
	case PtrVal:
		var eq Term
		switch bv := b.(type) {
		case PtrVal:
			eq = env.fx.ptrEq(av, bv)
		case OpaqueVal:
			eq = av.Nil
		}
		if x.Op == token.EQL {
			return eq
		}
		return Not(eq)
	case IfaceVal:
		if x.Op == token.EQL {
			return av.Nil
		}
		return Not(av.Nil)
	case SliceVal:
		if x.Op == token.EQL {
			return av.Nil
		}
		return Not(av.Nil)
	case OpaqueVal:
		if av.Desc == "nil" {
			switch bv := b.(type) {
			case PtrVal:
				if x.Op == token.EQL {
					return bv.Nil
				}
				return Not(bv.Nil)
			case IfaceVal:
				if x.Op == token.EQL {
					return bv.Nil
				}
				return Not(bv.Nil)
			}
		}
	}
	env.fail("unsupported binary expression %s", types.ExprString(x))
	return nil
}

func (env *SpecEnv) callExpr(x *ast.CallExpr) Value {
	fx := env.fx
	// conversion?
	if tv, ok := env.info.Types[x.Fun]; ok && tv.IsType() {
		to := tv.Type
		from := env.typeOf(x.Args[0])
		v := env.eval(x.Args[0])
		return env.convertValue(v, from, to)
	}
	var name string
	switch f := x.Fun.(type) {
	case *ast.Ident:
		name = f.Name
	case *ast.IndexExpr: // explicit instantiation old[T](x)
		if id, ok := f.X.(*ast.Ident); ok {
			name = id.Name
		}
	case *ast.SelectorExpr:
		if id, ok := f.X.(*ast.Ident); ok {
			name = id.Name + "." + f.Sel.Name
		}
	}
	switch name {
	case "len":
		switch v := env.eval(x.Args[0]).(type) {
		case SliceVal:
			return v.Len
		case StringVal:
			return v.Len
		case MapVal:
			return v.Len
		case ArrayVal:
			return i64(env.typeOf(x.Args[0]).Underlying().(*types.Array).Len())
		}
		env.fail("len of unsupported value")
	case "cap":
		if v, ok := env.eval(x.Args[0]).(SliceVal); ok {
			return v.Cap
		}
		env.fail("cap of unsupported value")
	case "old":
		if env.old == nil {
			env.fail("old() not available here")
		}
		n := env.child()
		n.st = env.old
		for k, v := range env.entryVars {
			n.vars[k] = v
		}
		return n.eval(x.Args[0])
	case "implies":
		return Implies(env.evalBool(x.Args[0]), env.evalBool(x.Args[1]))
	case "iff":
		return Eq(env.evalBool(x.Args[0]), env.evalBool(x.Args[1]))
	case "ite":
		c := env.evalBool(x.Args[0])
		a, b := env.eval(x.Args[1]).(Term), env.eval(x.Args[2]).(Term)
		return Ite(c, a, b)
	case "forall", "exists":
		lo, hi := env.intArg(x.Args[0]), env.intArg(x.Args[1])
		fl, ok := x.Args[2].(*ast.FuncLit)
		if !ok || len(fl.Body.List) != 1 {
			env.fail("%s needs a func literal with a single return", name)
		}
		pn := fl.Type.Params.List[0].Names[0].Name
		fx.symID++
		bv := Sym(fmt.Sprintf("%s!b%d", pn, fx.symID), SBV64)
		n := env.child()
		n.vars[pn] = bv
		body := n.evalBool(fl.Body.List[0].(*ast.ReturnStmt).Results[0])
		rng := And(BVSle(lo, bv), BVSlt(bv, hi))
		if name == "forall" {
			return Forall([]Term{bv}, Implies(rng, body))
		}
		return Exists([]Term{bv}, And(rng, body))
	case "sameArray":
		a, b := env.eval(x.Args[0]).(SliceVal), env.eval(x.Args[1]).(SliceVal)
		return StructEq(env.st.baseArr(a.Base).Arr, env.st.baseArr(b.Base).Arr)
	case "sameSlice":
		a, b := env.eval(x.Args[0]).(SliceVal), env.eval(x.Args[1]).(SliceVal)
		s, known := samePtr(a.Base, b.Base)
		if !known || !s {
			// a slice that was havoced (loop-modified variable, location assigned by a summarised call) may or may not
			// still be the other slice: the answer is unknown, NOT false (false would silently drop the disjuncts of an
			// assumed invariant that mention it)
			havoced := func(p PtrVal) bool {
				p = fx.materialise(p)
				return p.Obj != nil && (strings.HasPrefix(p.Obj.Name, "hv.") || strings.HasPrefix(p.Obj.Name, "phi.") || strings.HasPrefix(p.Obj.Name, "post.") || strings.HasPrefix(p.Obj.Name, "join."))
			}
			if havoced(a.Base) || havoced(b.Base) {
				fx.warn("sameSlice over a havoced slice is unknown (state such facts over lengths and elements)")
				return fx.FreshSym("sameSlice.unknown", SBool)
			}
			return And(StructEq(env.st.baseArr(a.Base).Arr, env.st.baseArr(b.Base).Arr), Eq(a.Off, b.Off), Eq(a.Len, b.Len), False())
		}
		return And(Eq(a.Off, b.Off), Eq(a.Len, b.Len))
	case "sliceOff":
		return env.eval(x.Args[0]).(SliceVal).Off
	case "math.Float64frombits":
		return FPFromBits(env.eval(x.Args[0]).(Term))
	case "math.Float64bits":
		return fx.float64bits(env.eval(x.Args[0]).(Term))
	case "math.IsNaN":
		return Term{S: "(fp.isNaN " + env.eval(x.Args[0]).(Term).S + ")", So: SBool}
	case "math.IsInf":
		return Term{S: "(fp.isInfinite " + env.eval(x.Args[0]).(Term).S + ")", So: SBool}
	case "math.Abs":
		return Term{S: "(fp.abs " + env.eval(x.Args[0]).(Term).S + ")", So: SFP}
	case "sameFloat":
		return StructEq(env.eval(x.Args[0]).(Term), env.eval(x.Args[1]).(Term))
	case "truncToInt64":
		return FPToSBV(64, env.eval(x.Args[0]).(Term))
	case "truncToUint64":
		return FPToUBV(64, env.eval(x.Args[0]).(Term))
	case "specParseIntOK", "specParseUintOK", "specParseFloatOK", "specParseIntVal", "specParseUintVal", "specParseFloatBits", "specParseIntRange", "specParseUintRange":
		b, o, l := env.bytesOf(env.eval(x.Args[0]))
		kind := "Int"
		if strings.Contains(name, "Uint") {
			kind = "Uint"
		} else if strings.Contains(name, "Float") {
			kind = "Float"
		}
		okT, valT, rngT := fx.strconvSyms(env.st, kind, b, o, l)
		switch {
		case strings.HasSuffix(name, "OK"):
			return okT
		case strings.HasSuffix(name, "Range"):
			return rngT
		}
		return valT
	case "rangeIndex":
		f := env.st.top()
		for _, in := range f.blk.Instrs {
			if phi, ok := in.(*ssa.Phi); ok && phi.Comment == "rangeindex" {
				return f.vals[phi]
			}
		}
		env.fail("rangeIndex(): current loop is not a range loop")
	case "inKeys":
		mv, ok := env.eval(x.Args[0]).(MapVal)
		if !ok {
			env.fail("inKeys: first argument is not a map")
		}
		return fx.mapHas(env.st, mv, env.eval(x.Args[1]))
	case "bytesEq":
		a, b := env.eval(x.Args[0]), env.eval(x.Args[1])
		ab, ao, al := env.bytesOf(a)
		bb, bo, bl := env.bytesOf(b)
		return fx.bytesEq(env.st, ab, ao, al, bb, bo, bl)
	}
	// uninterpreted spec function: an SMT function of its arguments (slices as array, offset, length)
	if id, ok := x.Fun.(*ast.Ident); ok && fx.eng.uninterpSpec[id.Name] {
		var args []string
		var sorts []string
		for _, a := range x.Args {
			switch v := env.eval(a).(type) {
			case SliceVal:
				arr := env.st.baseArr(v.Base).Arr
				args = append(args, arr.S, v.Off.S, v.Len.S)
				sorts = append(sorts, arr.So.String(), SBV64.String(), SBV64.String())
			case StringVal:
				arr := env.st.baseArr(v.Base).Arr
				args = append(args, arr.S, v.Off.S, v.Len.S)
				sorts = append(sorts, arr.So.String(), SBV64.String(), SBV64.String())
			case Term:
				args = append(args, v.S)
				sorts = append(sorts, v.So.String())
			default:
				env.fail("uninterpreted spec function %s: unsupported argument", id.Name)
			}
		}
		rs, ok := sortOfType(env.typeOf(x))
		if !ok {
			env.fail("uninterpreted spec function %s: unsupported result type", id.Name)
		}
		fname := "uf_" + id.Name
		if fx.ufDecls == nil {
			fx.ufDecls = map[string]string{}
		}
		fx.ufDecls[fname] = fmt.Sprintf("(declare-fun %s (%s) %s)", fname, strings.Join(sorts, " "), rs)
		return Term{S: "(" + fname + " " + strings.Join(args, " ") + ")", So: rs}
	}
	// spec function of the package: inline its AST
	if id, ok := x.Fun.(*ast.Ident); ok {
		if fd := fx.eng.specFuncs[id.Name]; fd != nil {
			return env.inlineSpec(fd, x.Args)
		}
	}
	env.fail("unsupported call %s in contract", types.ExprString(x.Fun))
	return nil
}

func (env *SpecEnv) bytesOf(v Value) (PtrVal, Term, Term) {
	switch s := v.(type) {
	case SliceVal:
		return s.Base, s.Off, s.Len
	case StringVal:
		return s.Base, s.Off, s.Len
	}
	env.fail("bytesEq on %T", v)
	return PtrVal{}, Term{}, Term{}
}

func (env *SpecEnv) convertValue(v Value, from, to types.Type) Value {
	t, ok := v.(Term)
	if !ok {
		return v
	}
	switch {
	case t.So.K == KBV && isIntType(to):
		so, _ := sortOfType(to)
		sg := from != nil && isSignedType(from)
		if t.C != nil && from != nil {
			if b, ok := from.Underlying().(*types.Basic); ok && b.Info()&types.IsUntyped != 0 {
				sg = true
			}
		}
		return Resize(t, so.W, sg)
	case t.So.K == KBV && isFloatType(to):
		if from != nil && isSignedType(from) {
			return FPFromSBV(t)
		}
		return FPFromUBV(t)
	case t.So.K == KFP && isIntType(to):
		so, _ := sortOfType(to)
		if isSignedType(to) {
			return FPToSBV(so.W, t)
		}
		return FPToUBV(so.W, t)
	}
	return v
}

// inlineSpec evaluates a pure spec function by substituting arguments into its body.
// Supported body: a sequence of `x := e`, `if c { return a }`, ending in `return e`.
func (env *SpecEnv) inlineSpec(fd *ast.FuncDecl, args []ast.Expr) Value {
	if env.depth > 40 {
		env.fail("spec function recursion too deep in %s", fd.Name.Name)
	}
	n := env.child()
	n.depth = env.depth + 1
	i := 0
	var argv []Value
	for _, a := range args {
		argv = append(argv, env.eval(a))
	}
	for _, fld := range fd.Type.Params.List {
		for _, nm := range fld.Names {
			v := argv[i]
			// convert untyped constants to the parameter type
			if t, ok := v.(Term); ok && t.So.K == KBV {
				pt := env.fx.eng.pkgInfo.Defs[nm].Type()
				if so, ok := sortOfType(pt); ok && so.K == KBV && so.W != t.So.W {
					v = Resize(t, so.W, true)
				}
			}
			n.vars[nm.Name] = v
			i++
		}
	}
	n.info = env.fx.eng.pkgInfo
	return n.evalStmts(fd.Body.List)
}

func (env *SpecEnv) evalStmts(list []ast.Stmt) Value {
	if len(list) == 0 {
		env.fail("spec function falls off the end")
	}
	switch s := list[0].(type) {
	case *ast.ReturnStmt:
		return env.eval(s.Results[0])
	case *ast.AssignStmt:
		if len(s.Lhs) == 1 && len(s.Rhs) == 1 {
			env.vars[s.Lhs[0].(*ast.Ident).Name] = env.eval(s.Rhs[0])
			return env.evalStmts(list[1:])
		}
	case *ast.IfStmt:
		if s.Init == nil {
			c := env.evalBool(s.Cond)
			thenV := env.child().evalStmts(s.Body.List)
			var elseV Value
			if s.Else != nil {
				if blk, ok := s.Else.(*ast.BlockStmt); ok {
					elseV = env.child().evalStmts(append(append([]ast.Stmt{}, blk.List...), list[1:]...))
				} else {
					elseV = env.child().evalStmts(append([]ast.Stmt{s.Else}, list[1:]...))
				}
			} else {
				elseV = env.child().evalStmts(list[1:])
			}
			return Ite(c, thenV.(Term), elseV.(Term))
		}
	}
	env.fail("unsupported statement in spec function")
	return nil
}

// evalAddr resolves an lvalue expression (for assigns clauses) to a pointer.
func (env *SpecEnv) evalAddr(ex ast.Expr) (PtrVal, bool) {
	switch x := ex.(type) {
	case *ast.ParenExpr:
		return env.evalAddr(x.X)
	case *ast.StarExpr:
		if p, ok := env.eval(x.X).(PtrVal); ok {
			return env.fx.materialise(p), true
		}
	case *ast.SelectorExpr:
		sel, ok := env.info.Selections[x]
		if !ok {
			return PtrVal{}, false
		}
		var base PtrVal
		if p, ok := env.eval(x.X).(PtrVal); ok && !isAddrExpr(x.X) {
			base = env.fx.materialise(p)
		} else if p, ok := env.evalAddr(x.X); ok {
			// x.X is itself an lvalue of struct type or a pointer stored in an lvalue
			if pp, ok := env.st.Load(p, nil).(PtrVal); ok {
				base = env.fx.materialise(pp)
			} else {
				base = p
			}
		} else {
			return PtrVal{}, false
		}
		for _, k := range sel.Index() {
			base = base.extend(PathElem{Field: k})
		}
		return base, true
	case *ast.CallExpr:
		// elems(s): the backing array of slice s
		if id, ok := x.Fun.(*ast.Ident); ok && id.Name == "elems" {
			if sv, ok := env.eval(x.Args[0]).(SliceVal); ok {
				return env.fx.materialise(sv.Base), true
			}
		}
	}
	return PtrVal{}, false
}

func isAddrExpr(ex ast.Expr) bool {
	_, ok := ex.(*ast.SelectorExpr)
	return ok
}
