package main

// Joining of path states at loop heads: all paths that reach a loop head for the first
// time are merged into one state that keeps what they agree on and forgets the rest
// (fresh symbols). Sound (the joined state over-approximates every arrival) and it
// keeps path enumeration from multiplying prefix paths with loop-body paths.

import (
	"fmt"
	"go/types"
	"sort"
	"strings"

	"golang.org/x/tools/go/ssa"
)

func valKey(v Value) string {
	switch x := v.(type) {
	case nil:
		return "nil"
	case Term:
		return x.S
	case StructVal:
		var b strings.Builder
		b.WriteString("{")
		for _, f := range x.Fields {
			b.WriteString(valKey(f))
			b.WriteString(";")
		}
		b.WriteString("}")
		return b.String()
	case ArrayVal:
		return "arr:" + x.Arr.S
	case SliceVal:
		return "sl:" + ptrKey(x.Base) + "|" + x.Off.S + "|" + x.Len.S + "|" + x.Cap.S + "|" + x.Nil.S
	case StringVal:
		return "str:" + ptrKey(x.Base) + "|" + x.Off.S + "|" + x.Len.S
	case PtrVal:
		return "ptr:" + ptrKey(x) + "|" + x.Nil.S
	case IfaceVal:
		if x.Aux != nil {
			return "if:" + x.Nil.S + "|" + x.Aux.S
		}
		return "if:" + x.Nil.S
	case MapVal:
		return fmt.Sprintf("map:%d|%s", x.ID, x.Len.S)
	case OpaqueVal:
		return "opq:" + x.Desc
	case TupleVal:
		var b strings.Builder
		b.WriteString("(")
		for _, f := range x {
			b.WriteString(valKey(f))
			b.WriteString(",")
		}
		b.WriteString(")")
		return b.String()
	case localAddr:
		return "la:" + ptrKey(x.P)
	}
	return fmt.Sprintf("%T", v)
}

func ptrKey(p PtrVal) string {
	var b strings.Builder
	if p.Obj != nil {
		fmt.Fprintf(&b, "o%d", p.Obj.id)
	} else if p.Lazy != nil {
		fmt.Fprintf(&b, "l%p", p.Lazy)
	} else {
		b.WriteString("nil")
	}
	for _, e := range p.Path {
		if e.Field >= 0 {
			fmt.Fprintf(&b, ".%d", e.Field)
		} else {
			b.WriteString("[" + e.Idx.S + "]")
		}
	}
	return b.String()
}

func (fx *FuncCtx) joinTerm(ts []Term, hint string) Term {
	if ts[0].So.K == KBool && len(fx.joinPCs) == len(ts) {
		// resolve each state's term against that state's path condition
		var val *bool
		ok := true
		for i, t := range ts {
			var b bool
			switch {
			case t.BC != nil:
				b = *t.BC
			case fx.joinPCs[i][t.S]:
				b = true
			case fx.joinPCs[i][Not(t).S]:
				b = false
			default:
				ok = false
			}
			if !ok {
				break
			}
			if val == nil {
				v := b
				val = &v
			} else if *val != b {
				ok = false
				break
			}
		}
		if ok && val != nil {
			return BoolC(*val)
		}
	}
	for _, t := range ts[1:] {
		if t.S != ts[0].S {
			// the same tuple of per-state terms always joins to the same symbol (keeps correlations)
			var kb strings.Builder
			for _, u := range ts {
				kb.WriteString(u.S)
				kb.WriteByte(0)
			}
			if fx.joinCache == nil {
				fx.joinCache = map[string]Term{}
			}
			if r, ok := fx.joinCache[kb.String()]; ok && r.So.Eq(ts[0].So) {
				return r
			}
			r := fx.FreshSym("join."+hint, ts[0].So)
			fx.joinCache[kb.String()] = r
			return r
		}
	}
	return ts[0]
}

func (fx *FuncCtx) joinValues(vs []Value, hint string) Value {
	k0 := valKey(vs[0])
	same := true
	for _, v := range vs[1:] {
		if valKey(v) != k0 {
			same = false
			break
		}
	}
	if same {
		return vs[0]
	}
	switch x := vs[0].(type) {
	case Term:
		var ts []Term
		for _, v := range vs {
			t, ok := v.(Term)
			if !ok || !t.So.Eq(x.So) {
				return fx.FreshSym("join."+hint, x.So)
			}
			ts = append(ts, t)
		}
		return fx.joinTerm(ts, hint)
	case StructVal:
		nf := make([]Value, len(x.Fields))
		for i := range x.Fields {
			var col []Value
			for _, v := range vs {
				sv, ok := v.(StructVal)
				if !ok || len(sv.Fields) != len(x.Fields) {
					return fx.havocValueKeep(vs[0], "join."+hint, false)
				}
				col = append(col, sv.Fields[i])
			}
			nf[i] = fx.joinValues(col, fmt.Sprintf("%s.%d", hint, i))
		}
		return StructVal{Fields: nf, T: x.T}
	case SliceVal:
		var offs, lens, caps, nils []Term
		sameBase := true
		for _, v := range vs {
			sv, ok := v.(SliceVal)
			if !ok {
				return fx.havocValueKeep(vs[0], "join."+hint, false)
			}
			offs, lens, caps, nils = append(offs, sv.Off), append(lens, sv.Len), append(caps, sv.Cap), append(nils, sv.Nil)
			if s, known := samePtr(sv.Base, x.Base); !(s && known) {
				sameBase = false
			}
		}
		r := SliceVal{ElemT: x.ElemT}
		if sameBase {
			r.Base = x.Base
			r.Off = fx.joinTerm(offs, hint+".off")
		} else {
			fr := fx.Fresh(typesSliceOf(x), "join."+hint).(SliceVal)
			r.Base = fr.Base
			r.Off = fr.Off
		}
		r.Len = fx.joinTerm(lens, hint+".len")
		r.Cap = fx.joinTerm(caps, hint+".cap")
		r.Nil = fx.joinTerm(nils, hint+".isnil")
		lim := BVConstU(64, 1<<maxSliceLog)
		fx.axiom(And(BVSle(i64(0), r.Off), BVSlt(r.Off, lim), BVSle(i64(0), r.Len), BVSle(r.Len, r.Cap), BVSlt(r.Cap, lim)))
		return r
	case PtrVal:
		var nils []Term
		sameTarget := true
		for _, v := range vs {
			pv, ok := v.(PtrVal)
			if !ok {
				return fx.havocValueKeep(vs[0], "join."+hint, false)
			}
			nils = append(nils, pv.Nil)
			if s, known := samePtr(pv, x); !(s && known) {
				sameTarget = false
			}
		}
		if sameTarget {
			r := x
			r.Nil = fx.joinTerm(nils, hint+".isnil")
			return r
		}
		// different targets: an unknown pointer of the same type, nil only if the inputs disagree about it
		if x.Elem == nil {
			return fx.havocValueKeep(vs[0], "join."+hint, false)
		}
		var kb strings.Builder
		for _, v := range vs {
			kb.WriteString(ptrKey(v.(PtrVal)))
			kb.WriteByte(0)
		}
		if fx.joinPtrs == nil {
			fx.joinPtrs = map[string]*LazyCell{}
		}
		cell, ok := fx.joinPtrs[kb.String()]
		if !ok {
			cell = &LazyCell{T: x.Elem, nm: "join." + hint}
			fx.joinPtrs[kb.String()] = cell
		}
		return PtrVal{Lazy: cell, Nil: fx.joinTerm(nils, hint+".isnil"), Elem: x.Elem}
	case TupleVal:
		nt := make(TupleVal, len(x))
		for i := range x {
			var col []Value
			for _, v := range vs {
				tv, ok := v.(TupleVal)
				if !ok || len(tv) != len(x) {
					return fx.havocValueKeep(vs[0], "join."+hint, false)
				}
				col = append(col, tv[i])
			}
			nt[i] = fx.joinValues(col, fmt.Sprintf("%s.%d", hint, i))
		}
		return nt
	}
	return fx.havocValueKeep(vs[0], "join."+hint, false)
}

func typesSliceOf(s SliceVal) types.Type { return types.NewSlice(s.ElemT) }

// joinStates merges states suspended at the same loop head (all in the outermost frame).
func (fx *FuncCtx) joinStates(sts []*State) *State {
	if len(sts) == 1 {
		return sts[0]
	}
	base := sts[0]
	fx.joinPCs = nil
	for _, s := range sts {
		m := map[string]bool{}
		for _, c := range s.pc {
			m[c.S] = true
		}
		fx.joinPCs = append(fx.joinPCs, m)
	}
	fx.joinCache = nil
	fx.joinPtrs = nil
	defer func() { fx.joinPCs = nil; fx.joinCache = nil; fx.joinPtrs = nil }()
	ns := base.clone()
	f := ns.top()
	// SSA values
	for k := range f.vals {
		var col []Value
		ok := true
		for _, s := range sts {
			v, has := s.top().vals[k]
			if !has {
				ok = false
				break
			}
			col = append(col, v)
		}
		if !ok {
			delete(f.vals, k)
			continue
		}
		name := "v"
		if nv, isv := k.(ssa.Value); isv {
			name = nv.Name()
		}
		f.vals[k] = fx.joinValues(col, name)
	}
	for k := range f.locals {
		var col []Value
		ok := true
		for _, s := range sts {
			v, has := s.top().locals[k]
			if !has {
				ok = false
				break
			}
			col = append(col, v)
		}
		if !ok {
			delete(f.locals, k)
			continue
		}
		f.locals[k] = fx.joinValues(col, k)
	}
	// heap: every object known to any state
	objs := map[*Object]bool{}
	for _, s := range sts {
		for o := range s.heap {
			objs[o] = true
		}
	}
	var ol []*Object
	for o := range objs {
		ol = append(ol, o)
	}
	sort.Slice(ol, func(i, j int) bool { return ol[i].id < ol[j].id })
	for _, o := range ol {
		var col []Value
		usable := true
		for _, s := range sts {
			if v, ok := s.heap[o]; ok {
				col = append(col, v)
			} else if o.Init != nil {
				col = append(col, o.Init)
			} else {
				usable = false
				break
			}
		}
		if !usable {
			// object allocated on some paths only: unreachable from joined values unless they agree
			if v, ok := base.heap[o]; ok {
				ns.heap[o] = v
			} else {
				for _, s := range sts {
					if v, ok := s.heap[o]; ok {
						ns.heap[o] = fx.havocValueKeep(v, "join."+o.Name, false)
						break
					}
				}
			}
			continue
		}
		ns.heap[o] = fx.joinValues(col, o.Name)
	}
	// path condition: common conjuncts
	count := map[string]int{}
	for _, s := range sts {
		seen := map[string]bool{}
		for _, c := range s.pc {
			if !seen[c.S] {
				seen[c.S] = true
				count[c.S]++
			}
		}
	}
	var npc []Term
	for _, c := range base.pc {
		if count[c.S] == len(sts) {
			npc = append(npc, c)
		}
	}
	ns.pc = npc
	return ns
}
