package main

// Minimal s-expression handling used for ground instantiation of quantified hypotheses.

import (
	"regexp"
	"sort"
	"strings"
)

type sx struct {
	atom string
	kids []*sx
}

func parseSx(s string) *sx {
	pos := 0
	var parse func() *sx
	parse = func() *sx {
		for pos < len(s) && (s[pos] == ' ' || s[pos] == '\n') {
			pos++
		}
		if pos >= len(s) {
			return nil
		}
		if s[pos] == '(' {
			pos++
			n := &sx{}
			for {
				for pos < len(s) && (s[pos] == ' ' || s[pos] == '\n') {
					pos++
				}
				if pos >= len(s) {
					return n
				}
				if s[pos] == ')' {
					pos++
					return n
				}
				n.kids = append(n.kids, parse())
			}
		}
		start := pos
		for pos < len(s) && s[pos] != ' ' && s[pos] != '(' && s[pos] != ')' && s[pos] != '\n' {
			pos++
		}
		return &sx{atom: s[start:pos]}
	}
	return parse()
}

func (n *sx) String() string {
	if n.kids == nil && n.atom != "" {
		return n.atom
	}
	var b strings.Builder
	n.write(&b)
	return b.String()
}

func (n *sx) write(b *strings.Builder) {
	if n.kids == nil && n.atom != "" {
		b.WriteString(n.atom)
		return
	}
	b.WriteByte('(')
	for i, k := range n.kids {
		if i > 0 {
			b.WriteByte(' ')
		}
		k.write(b)
	}
	b.WriteByte(')')
}

func (n *sx) head() string {
	if len(n.kids) > 0 && n.kids[0].kids == nil {
		return n.kids[0].atom
	}
	return ""
}

var boundRe = regexp.MustCompile(`![bg][0-9]+`)

// collectIndexTerms gathers ground index terms of select/store applications.
func collectIndexTerms(n *sx, into map[string]bool) {
	if n == nil || n.kids == nil {
		return
	}
	h := n.head()
	if (h == "select" && len(n.kids) == 3) || (h == "store" && len(n.kids) == 4) {
		idx := n.kids[2].String()
		if !boundRe.MatchString(idx) {
			into[idx] = true
		}
	}
	for _, k := range n.kids {
		collectIndexTerms(k, into)
	}
}

// instantiate replaces positively occurring (forall ((v S)) body) by the conjunction of body[v:=t] for the given terms.
// Returns false if the hypothesis contains a quantifier in a position it cannot handle (left untouched).
func instantiate(n *sx, terms []string, positive bool) *sx {
	if n == nil || n.kids == nil {
		return n
	}
	h := n.head()
	switch h {
	case "forall":
		if positive && len(n.kids) == 3 && len(n.kids[1].kids) == 1 {
			v := n.kids[1].kids[0].kids[0].atom
			body := n.kids[2].String()
			out := &sx{kids: []*sx{{atom: "and"}, {atom: "true"}}}
			for _, t := range terms {
				inst := parseSx(strings.ReplaceAll(body, v, t))
				out.kids = append(out.kids, instantiate(inst, terms, true))
			}
			return out
		}
		return n
	case "exists":
		return n
	case "and", "or":
		out := &sx{kids: []*sx{n.kids[0]}}
		for _, k := range n.kids[1:] {
			out.kids = append(out.kids, instantiate(k, terms, positive))
		}
		return out
	case "=>":
		if len(n.kids) == 3 {
			return &sx{kids: []*sx{n.kids[0], instantiate(n.kids[1], terms, !positive), instantiate(n.kids[2], terms, positive)}}
		}
	case "not":
		if len(n.kids) == 2 {
			return &sx{kids: []*sx{n.kids[0], instantiate(n.kids[1], terms, !positive)}}
		}
	}
	return n
}

// groundVersion returns the obligation with positive quantified hypotheses ground-instantiated
// over the index terms occurring in the VC (plus extra), or nil if there is nothing to instantiate.
func groundVersion(o *Obligation, axioms []Term) (*Obligation, bool) {
	hasQ := false
	for _, h := range o.Hyps {
		if strings.Contains(h.S, "(forall ") {
			hasQ = true
		}
	}
	if !hasQ {
		return nil, false
	}
	terms := map[string]bool{}
	var trees []*sx
	for _, h := range o.Hyps {
		t := parseSx(h.S)
		trees = append(trees, t)
		collectIndexTerms(t, terms)
	}
	collectIndexTerms(parseSx(o.Goal.S), terms)
	var ts []string
	for t := range terms {
		ts = append(ts, t)
	}
	sort.Strings(ts)
	if len(ts) > 24 {
		ts = ts[:24]
	}
	if len(ts) == 0 {
		return nil, false
	}
	// two rounds so that instances exposing new index terms get instantiated as well
	no := *o
	no.Hyps = nil
	for _, t := range trees {
		it := instantiate(t, ts, true)
		no.Hyps = append(no.Hyps, Term{S: it.String(), So: SBool})
	}
	return &no, true
}
