package main

// Minimal s-expression handling used for ground instantiation of quantified hypotheses.

import (
	"regexp"
	"strconv"
	"sort"
	"strings"
)

type sx struct {
	atom string
	kids []*sx
}

func parseSx(s string) *sx {
	pos := 0
	var parse func() *sx
	parse = func() *sx {
		for pos < len(s) && (s[pos] == ' ' || s[pos] == '\n') {
			pos++
		}
		if pos >= len(s) {
			return nil
		}
		if s[pos] == '(' {
			pos++
			n := &sx{}
			for {
				for pos < len(s) && (s[pos] == ' ' || s[pos] == '\n') {
					pos++
				}
				if pos >= len(s) {
					return n
				}
				if s[pos] == ')' {
					pos++
					return n
				}
				n.kids = append(n.kids, parse())
			}
		}
		start := pos
		for pos < len(s) && s[pos] != ' ' && s[pos] != '(' && s[pos] != ')' && s[pos] != '\n' {
			pos++
		}
		return &sx{atom: s[start:pos]}
	}
	return parse()
}

func (n *sx) String() string {
	if n.kids == nil && n.atom != "" {
		return n.atom
	}
	var b strings.Builder
	n.write(&b)
	return b.String()
}

func (n *sx) write(b *strings.Builder) {
	if n.kids == nil && n.atom != "" {
		b.WriteString(n.atom)
		return
	}
	b.WriteByte('(')
	for i, k := range n.kids {
		if i > 0 {
			b.WriteByte(' ')
		}
		k.write(b)
	}
	b.WriteByte(')')
}

func (n *sx) head() string {
	if len(n.kids) > 0 && n.kids[0].kids == nil {
		return n.kids[0].atom
	}
	return ""
}

var boundRe = regexp.MustCompile(`![bg][0-9]+`)

// collectIndexTerms gathers ground index terms of select/store applications.
func collectIndexTerms(n *sx, into map[string]bool) {
	if n == nil || n.kids == nil {
		return
	}
	h := n.head()
	if (h == "select" && len(n.kids) == 3) || (h == "store" && len(n.kids) == 4) {
		idx := n.kids[2].String()
		if !boundRe.MatchString(idx) {
			into[idx] = true
			// slices with a symbolic offset are indexed as (bvadd off j): the summands are candidates for j
			if n.kids[2].head() == "bvadd" {
				for _, k := range n.kids[2].kids[1:] {
					into[k.String()] = true
				}
			}
		}
	}
	for _, k := range n.kids {
		collectIndexTerms(k, into)
	}
}

// instantiate replaces positively occurring (forall ((v S)) body) by the conjunction of body[v:=t] for the given terms.
// Returns false if the hypothesis contains a quantifier in a position it cannot handle (left untouched).
func instantiate(n *sx, terms []string, positive bool) *sx {
	if n == nil || n.kids == nil {
		return n
	}
	h := n.head()
	switch h {
	case "forall":
		if positive && len(n.kids) == 3 && len(n.kids[1].kids) == 1 {
			v := n.kids[1].kids[0].kids[0].atom
			body := n.kids[2].String()
			out := &sx{kids: []*sx{{atom: "and"}, {atom: "true"}}}
			for _, t := range terms {
				inst := parseSx(strings.ReplaceAll(body, v, t))
				out.kids = append(out.kids, instantiate(inst, terms, true))
			}
			return out
		}
		return n
	case "exists":
		return n
	case "and", "or":
		out := &sx{kids: []*sx{n.kids[0]}}
		for _, k := range n.kids[1:] {
			out.kids = append(out.kids, instantiate(k, terms, positive))
		}
		return out
	case "=>":
		if len(n.kids) == 3 {
			return &sx{kids: []*sx{n.kids[0], instantiate(n.kids[1], terms, !positive), instantiate(n.kids[2], terms, positive)}}
		}
	case "not":
		if len(n.kids) == 2 {
			return &sx{kids: []*sx{n.kids[0], instantiate(n.kids[1], terms, !positive)}}
		}
	}
	return n
}

// groundVersion returns the obligation with positive quantified hypotheses ground-instantiated
// over the index terms occurring in the VC (plus extra), or nil if there is nothing to instantiate.
func groundVersion(o *Obligation, axioms []Term) (*Obligation, bool) {
	hasQ := false
	for _, h := range o.Hyps {
		if strings.Contains(h.S, "(forall ") {
			hasQ = true
		}
	}
	if !hasQ {
		return nil, false
	}
	terms := map[string]bool{}
	var trees []*sx
	for _, h := range o.Hyps {
		t := parseSx(h.S)
		trees = append(trees, t)
		collectIndexTerms(t, terms)
	}
	collectIndexTerms(parseSx(o.Goal.S), terms)
	var ts []string
	for t := range terms {
		ts = append(ts, t)
	}
	sort.Strings(ts)
	if len(ts) > 24 {
		ts = ts[:24]
	}
	if len(ts) == 0 {
		return nil, false
	}
	no := *o
	no.Hyps = nil
	// skolemize positive universal quantifiers of the goal so that their index terms take part
	gt := skolemize(parseSx(o.Goal.S), true, &no.ExtraDecls)
	no.Goal = Term{S: gt.String(), So: SBool}
	collectIndexTerms(gt, terms)
	ts = ts[:0]
	for t := range terms {
		ts = append(ts, t)
	}
	sort.Strings(ts)
	if len(ts) > 32 {
		ts = ts[:32]
	}
	for _, t := range trees {
		it := instantiate(t, ts, true)
		no.Hyps = append(no.Hyps, Term{S: it.String(), So: SBool})
	}
	return &no, true
}

var skCounter int

// skolemize replaces positively occurring foralls (i.e. existentials of the negated goal) by fresh constants.
func skolemize(n *sx, positive bool, decls *[]string) *sx {
	if n == nil || n.kids == nil {
		return n
	}
	switch n.head() {
	case "forall":
		if positive && len(n.kids) == 3 {
			body := n.kids[2].String()
			for _, b := range n.kids[1].kids {
				skCounter++
				name := "sk" + strings.ReplaceAll(b.kids[0].atom, "!", "_") + "!" + itoa(skCounter)
				*decls = append(*decls, "(declare-const "+name+" "+b.kids[1].String()+")")
				body = strings.ReplaceAll(body, b.kids[0].atom, name)
			}
			return skolemize(parseSx(body), true, decls)
		}
		return n
	case "exists":
		return n
	case "and", "or":
		out := &sx{kids: []*sx{n.kids[0]}}
		for _, k := range n.kids[1:] {
			out.kids = append(out.kids, skolemize(k, positive, decls))
		}
		return out
	case "=>":
		if len(n.kids) == 3 {
			return &sx{kids: []*sx{n.kids[0], skolemize(n.kids[1], !positive, decls), skolemize(n.kids[2], positive, decls)}}
		}
	case "not":
		if len(n.kids) == 2 {
			return &sx{kids: []*sx{n.kids[0], skolemize(n.kids[1], !positive, decls)}}
		}
	}
	return n
}

func itoa(i int) string { return strconv.Itoa(i) }
