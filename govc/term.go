package main

// SMT term construction with light constant folding.
// Semantics: Go machine integers are fixed-width bit-vectors with wrap-around,
// float64 is SMT-LIB Float64 (RNE), arrays are (Array (_ BitVec 64) elem).

import (
	"fmt"
	"math/big"
	"strings"
)

type SortKind int

const (
	KBV SortKind = iota
	KBool
	KFP
	KArr
)

type Sort struct {
	K    SortKind
	W    int   // bit width for KBV
	Elem *Sort // element sort for KArr (index is always BV64)
}

var (
	SBool = Sort{K: KBool}
	SFP   = Sort{K: KFP}
	SBV64 = Sort{K: KBV, W: 64}
	SBV32 = Sort{K: KBV, W: 32}
	SBV8  = Sort{K: KBV, W: 8}
)

func BV(w int) Sort { return Sort{K: KBV, W: w} }
func ArrOf(e Sort) Sort {
	ee := e
	return Sort{K: KArr, Elem: &ee}
}

func (s Sort) String() string {
	switch s.K {
	case KBV:
		return fmt.Sprintf("(_ BitVec %d)", s.W)
	case KBool:
		return "Bool"
	case KFP:
		return "(_ FloatingPoint 11 53)"
	case KArr:
		return fmt.Sprintf("(Array (_ BitVec 64) %s)", s.Elem.String())
	}
	return "?"
}

func (s Sort) Eq(o Sort) bool {
	if s.K != o.K {
		return false
	}
	switch s.K {
	case KBV:
		return s.W == o.W
	case KArr:
		return s.Elem.Eq(*o.Elem)
	}
	return true
}

// Term is an SMT term. C is the constant value for BV constants; BC for Bool constants.
type Term struct {
	S  string
	So Sort
	C  *big.Int
	BC *bool
}

func (t Term) IsConst() bool { return t.C != nil || t.BC != nil }

var btrue, bfalse = true, false

func True() Term  { return Term{S: "true", So: SBool, BC: &btrue} }
func False() Term { return Term{S: "false", So: SBool, BC: &bfalse} }
func BoolC(b bool) Term {
	if b {
		return True()
	}
	return False()
}

func mask(w int) *big.Int {
	m := new(big.Int).Lsh(big.NewInt(1), uint(w))
	return m.Sub(m, big.NewInt(1))
}

func BVConstBig(w int, v *big.Int) Term {
	x := new(big.Int).And(v, mask(w)) // two's complement wrap for negatives
	if v.Sign() < 0 {
		m := new(big.Int).Lsh(big.NewInt(1), uint(w))
		x = new(big.Int).Mod(v, m)
	}
	var s string
	if w%4 == 0 {
		s = fmt.Sprintf("#x%0*s", w/4, x.Text(16))
	} else {
		s = fmt.Sprintf("#b%0*s", w, x.Text(2))
	}
	return Term{S: s, So: BV(w), C: x}
}

func BVConst(w int, v int64) Term { return BVConstBig(w, big.NewInt(v)) }
func BVConstU(w int, v uint64) Term {
	return BVConstBig(w, new(big.Int).SetUint64(v))
}

func Sym(name string, so Sort) Term { return Term{S: name, So: so} }

func app(so Sort, op string, args ...Term) Term {
	var b strings.Builder
	b.WriteByte('(')
	b.WriteString(op)
	for _, a := range args {
		b.WriteByte(' ')
		b.WriteString(a.S)
	}
	b.WriteByte(')')
	return Term{S: b.String(), So: so}
}

func signed(w int, v *big.Int) *big.Int {
	if v.Bit(w-1) == 1 {
		return new(big.Int).Sub(v, new(big.Int).Lsh(big.NewInt(1), uint(w)))
	}
	return v
}

func Not(a Term) Term {
	if a.BC != nil {
		return BoolC(!*a.BC)
	}
	if strings.HasPrefix(a.S, "(not ") {
		return Term{S: a.S[5 : len(a.S)-1], So: SBool}
	}
	return app(SBool, "not", a)
}

func And(ts ...Term) Term {
	var xs []Term
	for _, t := range ts {
		if t.BC != nil {
			if !*t.BC {
				return False()
			}
			continue
		}
		xs = append(xs, t)
	}
	if len(xs) == 0 {
		return True()
	}
	if len(xs) == 1 {
		return xs[0]
	}
	return app(SBool, "and", xs...)
}

func Or(ts ...Term) Term {
	var xs []Term
	for _, t := range ts {
		if t.BC != nil {
			if *t.BC {
				return True()
			}
			continue
		}
		xs = append(xs, t)
	}
	if len(xs) == 0 {
		return False()
	}
	if len(xs) == 1 {
		return xs[0]
	}
	return app(SBool, "or", xs...)
}

func Implies(a, b Term) Term {
	if a.BC != nil {
		if *a.BC {
			return b
		}
		return True()
	}
	if b.BC != nil && *b.BC {
		return True()
	}
	return app(SBool, "=>", a, b)
}

func Ite(c, a, b Term) Term {
	if c.BC != nil {
		if *c.BC {
			return a
		}
		return b
	}
	if a.S == b.S {
		return a
	}
	if a.So.K == KBool {
		return Or(And(c, a), And(Not(c), b))
	}
	return app(a.So, "ite", c, a, b)
}

func Eq(a, b Term) Term {
	if !a.So.Eq(b.So) {
		panic(fmt.Sprintf("Eq sort mismatch: %s:%s vs %s:%s", a.S, a.So, b.S, b.So))
	}
	if a.C != nil && b.C != nil {
		return BoolC(a.C.Cmp(b.C) == 0)
	}
	if a.BC != nil && b.BC != nil {
		return BoolC(*a.BC == *b.BC)
	}
	if a.S == b.S && a.So.K != KFP {
		return True()
	}
	if a.So.K == KFP {
		return app(SBool, "fp.eq", a, b) // Go == on floats is IEEE equality
	}
	return app(SBool, "=", a, b)
}

// StructEq is SMT structural equality (used for frames / bit identity).
func StructEq(a, b Term) Term {
	if a.S == b.S {
		return True()
	}
	return app(SBool, "=", a, b)
}

func bvbin(op string, a, b Term, f func(x, y *big.Int, w int) *big.Int) Term {
	if !a.So.Eq(b.So) {
		panic(fmt.Sprintf("bv %s sort mismatch: %s:%s vs %s:%s", op, a.S, a.So, b.S, b.So))
	}
	w := a.So.W
	if a.C != nil && b.C != nil && f != nil {
		r := f(a.C, b.C, w)
		if r != nil {
			return BVConstBig(w, r)
		}
	}
	return app(a.So, op, a, b)
}

func BVAdd(a, b Term) Term {
	if b.C != nil && b.C.Sign() == 0 {
		return a
	}
	if a.C != nil && a.C.Sign() == 0 {
		return b
	}
	return bvbin("bvadd", a, b, func(x, y *big.Int, w int) *big.Int { return new(big.Int).Add(x, y) })
}
func BVSub(a, b Term) Term {
	if b.C != nil && b.C.Sign() == 0 {
		return a
	}
	return bvbin("bvsub", a, b, func(x, y *big.Int, w int) *big.Int { return new(big.Int).Sub(x, y) })
}
func BVMul(a, b Term) Term {
	return bvbin("bvmul", a, b, func(x, y *big.Int, w int) *big.Int { return new(big.Int).Mul(x, y) })
}
func BVAnd(a, b Term) Term {
	return bvbin("bvand", a, b, func(x, y *big.Int, w int) *big.Int { return new(big.Int).And(x, y) })
}
func BVOr(a, b Term) Term {
	return bvbin("bvor", a, b, func(x, y *big.Int, w int) *big.Int { return new(big.Int).Or(x, y) })
}
func BVXor(a, b Term) Term {
	return bvbin("bvxor", a, b, func(x, y *big.Int, w int) *big.Int { return new(big.Int).Xor(x, y) })
}
func BVNot(a Term) Term {
	if a.C != nil {
		return BVConstBig(a.So.W, new(big.Int).Xor(a.C, mask(a.So.W)))
	}
	return app(a.So, "bvnot", a)
}
func BVNeg(a Term) Term {
	if a.C != nil {
		return BVConstBig(a.So.W, new(big.Int).Neg(a.C))
	}
	return app(a.So, "bvneg", a)
}
func BVShl(a, b Term) Term {
	return bvbin("bvshl", a, b, func(x, y *big.Int, w int) *big.Int {
		if y.Cmp(big.NewInt(int64(w))) >= 0 {
			return big.NewInt(0)
		}
		return new(big.Int).Lsh(x, uint(y.Int64()))
	})
}
func BVLshr(a, b Term) Term {
	return bvbin("bvlshr", a, b, func(x, y *big.Int, w int) *big.Int {
		if y.Cmp(big.NewInt(int64(w))) >= 0 {
			return big.NewInt(0)
		}
		return new(big.Int).Rsh(x, uint(y.Int64()))
	})
}
func BVAshr(a, b Term) Term {
	return bvbin("bvashr", a, b, func(x, y *big.Int, w int) *big.Int {
		sx := signed(w, x)
		sh := uint(w)
		if y.Cmp(big.NewInt(int64(w))) < 0 {
			sh = uint(y.Int64())
		}
		return new(big.Int).Rsh(sx, sh)
	})
}
func BVUdiv(a, b Term) Term { return bvbin("bvudiv", a, b, nil) }
func BVSdiv(a, b Term) Term {
	return bvbin("bvsdiv", a, b, func(x, y *big.Int, w int) *big.Int {
		if y.Sign() == 0 {
			return nil
		}
		return new(big.Int).Quo(signed(w, x), signed(w, y))
	})
}
func BVUrem(a, b Term) Term {
	return bvbin("bvurem", a, b, func(x, y *big.Int, w int) *big.Int {
		if y.Sign() == 0 {
			return nil
		}
		return new(big.Int).Rem(x, y)
	})
}
func BVSrem(a, b Term) Term { return bvbin("bvsrem", a, b, nil) }

func bvcmp(op string, a, b Term, f func(x, y *big.Int, w int) bool) Term {
	if !a.So.Eq(b.So) {
		panic(fmt.Sprintf("bv %s sort mismatch: %s:%s vs %s:%s", op, a.S, a.So, b.S, b.So))
	}
	if a.C != nil && b.C != nil {
		return BoolC(f(a.C, b.C, a.So.W))
	}
	return app(SBool, op, a, b)
}
func BVUlt(a, b Term) Term {
	return bvcmp("bvult", a, b, func(x, y *big.Int, w int) bool { return x.Cmp(y) < 0 })
}
func BVUle(a, b Term) Term {
	return bvcmp("bvule", a, b, func(x, y *big.Int, w int) bool { return x.Cmp(y) <= 0 })
}
func BVSlt(a, b Term) Term {
	return bvcmp("bvslt", a, b, func(x, y *big.Int, w int) bool { return signed(w, x).Cmp(signed(w, y)) < 0 })
}
func BVSle(a, b Term) Term {
	return bvcmp("bvsle", a, b, func(x, y *big.Int, w int) bool { return signed(w, x).Cmp(signed(w, y)) <= 0 })
}

func Extract(hi, lo int, a Term) Term {
	if hi-lo+1 == a.So.W {
		return a
	}
	if a.C != nil {
		v := new(big.Int).Rsh(a.C, uint(lo))
		return BVConstBig(hi-lo+1, v)
	}
	return Term{S: fmt.Sprintf("((_ extract %d %d) %s)", hi, lo, a.S), So: BV(hi - lo + 1)}
}
func ZeroExt(to int, a Term) Term {
	if to == a.So.W {
		return a
	}
	if a.C != nil {
		return BVConstBig(to, a.C)
	}
	return Term{S: fmt.Sprintf("((_ zero_extend %d) %s)", to-a.So.W, a.S), So: BV(to)}
}
func SignExt(to int, a Term) Term {
	if to == a.So.W {
		return a
	}
	if a.C != nil {
		return BVConstBig(to, signed(a.So.W, a.C))
	}
	return Term{S: fmt.Sprintf("((_ sign_extend %d) %s)", to-a.So.W, a.S), So: BV(to)}
}
func Concat(hi, lo Term) Term {
	return Term{S: fmt.Sprintf("(concat %s %s)", hi.S, lo.S), So: BV(hi.So.W + lo.So.W)}
}

// Resize converts a BV between widths (truncate, or extend per signedness of the source).
func Resize(a Term, to int, srcSigned bool) Term {
	if to == a.So.W {
		return a
	}
	if to < a.So.W {
		return Extract(to-1, 0, a)
	}
	if srcSigned {
		return SignExt(to, a)
	}
	return ZeroExt(to, a)
}

func Select(arr, idx Term) Term {
	if arr.So.K != KArr {
		panic("select on non-array " + arr.S)
	}
	return app(*arr.So.Elem, "select", arr, idx)
}
func Store(arr, idx, v Term) Term {
	if arr.So.K != KArr {
		panic("store on non-array " + arr.S)
	}
	if !arr.So.Elem.Eq(v.So) {
		panic(fmt.Sprintf("store elem sort mismatch %s vs %s", arr.So.Elem, v.So))
	}
	return app(arr.So, "store", arr, idx, v)
}
func ConstArr(elem Sort, v Term) Term {
	so := ArrOf(elem)
	return Term{S: fmt.Sprintf("((as const %s) %s)", so, v.S), So: so}
}

func Forall(vars []Term, body Term) Term {
	if body.BC != nil {
		return body
	}
	var b strings.Builder
	b.WriteString("(forall (")
	for _, v := range vars {
		fmt.Fprintf(&b, "(%s %s)", v.S, v.So)
	}
	b.WriteString(") ")
	b.WriteString(body.S)
	b.WriteString(")")
	return Term{S: b.String(), So: SBool}
}
func Exists(vars []Term, body Term) Term {
	if body.BC != nil {
		return body
	}
	var b strings.Builder
	b.WriteString("(exists (")
	for _, v := range vars {
		fmt.Fprintf(&b, "(%s %s)", v.S, v.So)
	}
	b.WriteString(") ")
	b.WriteString(body.S)
	b.WriteString(")")
	return Term{S: b.String(), So: SBool}
}

// Floating point
func FPFromBits(bv Term) Term {
	return Term{S: fmt.Sprintf("((_ to_fp 11 53) %s)", bv.S), So: SFP}
}
func FPConstBits(bits uint64) Term { return FPFromBits(BVConstU(64, bits)) }
func FPBin(op string, a, b Term) Term {
	return Term{S: fmt.Sprintf("(%s RNE %s %s)", op, a.S, b.S), So: SFP}
}
func FPCmp(op string, a, b Term) Term { return app(SBool, op, a, b) }
func FPFromSBV(a Term) Term {
	return Term{S: fmt.Sprintf("((_ to_fp 11 53) RNE %s)", a.S), So: SFP}
}
func FPFromUBV(a Term) Term {
	return Term{S: fmt.Sprintf("((_ to_fp_unsigned 11 53) RNE %s)", a.S), So: SFP}
}
func FPToSBV(w int, a Term) Term {
	return Term{S: fmt.Sprintf("((_ fp.to_sbv %d) RTZ %s)", w, a.S), So: BV(w)}
}
func FPToUBV(w int, a Term) Term {
	return Term{S: fmt.Sprintf("((_ fp.to_ubv %d) RTZ %s)", w, a.S), So: BV(w)}
}
