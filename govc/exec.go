package main

// Path-enumerating symbolic executor over go/ssa.
//
// A function is explored along every acyclic path from its entry. Loop heads
// (targets of retreating CFG edges) are cut points: on first arrival the
// invariant is asserted (establishment), everything the loop can modify is
// havocked, the invariant is assumed; on arrival through a back edge the
// invariant and the variant are asserted and the path ends.

import (
	"fmt"
	"go/ast"
	"go/constant"
	"go/token"
	"go/types"
	"math"
	"sort"
	"strings"

	"golang.org/x/tools/go/ssa"
)

type Obligation struct {
	Name   string // role-based name (without function prefix)
	Kind   string
	Props  []string
	Hyps   []Term
	Goal   Term
	PathID int
	Pos    string
	Canary bool // an obligation expected to FAIL (vacuity guard)
	ExtraDecls []string
}

type FuncCtx struct {
	eng      *Engine
	fn       *ssa.Function
	ct       *Contract
	symID    int
	objID    int
	mapID    int
	decls    map[string]Sort
	declOrd  []string
	axioms   []Term
	obls     []*Obligation
	pathID   int
	npaths   int
	warnings map[string]bool
	cutInfo  map[*ssa.Function]*CutInfo
	entry    *State // snapshot at function entry (for old())
	ghost    map[string]Value
	params   map[string]Value // entry values of parameters by name
	aborted  string
	siteName map[ssa.Instruction]string
	maxPaths int
	globalObjs map[*ssa.Global]*Object
	suspended  map[*ssa.BasicBlock][]*State
	siteObjs   map[string]*Object
	joinPCs    []map[string]bool
	joinCache  map[string]Term
	joinPtrs   map[string]*LazyCell
	mapHasSyms map[string]Term
	curSite    string
	siteSeq    int
	siteSyms   map[string]Term
	uninterp   map[string][]Term
	ufDecls    map[string]string
	f64bits    map[string]Term
	factObjs   map[*Object][]*TableFact
	factDone   map[string]bool
}

type CutInfo struct {
	heads map[*ssa.BasicBlock]int                      // loop head -> ordinal (source order)
	body  map[*ssa.BasicBlock]map[*ssa.BasicBlock]bool // loop head -> blocks of the loop
}

type Frame struct {
	fn      *ssa.Function
	ct      *Contract
	vals    map[ssa.Value]Value
	blk     *ssa.BasicBlock
	prev    *ssa.BasicBlock
	idx     int
	call    ssa.Value // call instruction in the caller awaiting the result
	visited map[*ssa.BasicBlock]*loopVisit
	locals  map[string]Value // source-level locals by name (from DebugRef)
	localBlk map[string]*ssa.BasicBlock // block in which the local's current value was recorded
	entered bool             // entry handling (phis, cut point) of blk has been done
	entry   *State           // snapshot at the frame's entry (old() in clauses of inlined functions)
	prefix  string // obligation-name prefix for inlined frames
	depth   int
}

type loopVisit struct {
	variant []Term // values of the decreases expressions at the head (after havoc)
}

type writeLog struct {
	maxObj int               // objects with id <= maxObj existed at the loop head
	writes map[string]PtrVal // key -> location (path truncated at first index)
}

type State struct {
	fx       *FuncCtx
	stack    []*Frame
	heap     map[*Object]Value
	pc       []Term
	logs     []*writeLog
	discover *discoverCtx // non-nil in discovery mode
	dead     bool
	allocN   map[ssa.Instruction]int // per-path execution counts of allocating instructions
}

type discoverCtx struct {
	depth   int // frame depth of the loop
	head    *ssa.BasicBlock
	body    map[*ssa.BasicBlock]bool
	phiVals map[*ssa.Phi][]Value
}

func (fx *FuncCtx) FreshSym(hint string, so Sort) Term {
	if fx.curSite != "" {
		// symbols created while executing an instruction are named after (instruction, occurrence on
		// the path, sequence): different paths executing the same instruction share them, so facts
		// about them survive a join.
		fx.siteSeq++
		key := fmt.Sprintf("%s/%d/%s", fx.curSite, fx.siteSeq, so)
		if fx.siteSyms == nil {
			fx.siteSyms = map[string]Term{}
		}
		if t, ok := fx.siteSyms[key]; ok {
			return t
		}
		fx.symID++
		name := sanitize(hint) + "!" + fmt.Sprint(fx.symID)
		fx.decls[name] = so
		fx.declOrd = append(fx.declOrd, name)
		t := Sym(name, so)
		fx.siteSyms[key] = t
		return t
	}
	fx.symID++
	name := sanitize(hint) + "!" + fmt.Sprint(fx.symID)
	fx.decls[name] = so
	fx.declOrd = append(fx.declOrd, name)
	return Sym(name, so)
}

func sanitize(s string) string {
	var b strings.Builder
	for _, c := range s {
		switch {
		case c >= 'a' && c <= 'z', c >= 'A' && c <= 'Z', c >= '0' && c <= '9', c == '_', c == '.':
			b.WriteRune(c)
		case c == '*':
			b.WriteString("deref_")
		default:
			b.WriteRune('_')
		}
	}
	if b.Len() == 0 {
		return "v"
	}
	r := b.String()
	if r[0] >= '0' && r[0] <= '9' {
		r = "v" + r
	}
	return r
}

func (fx *FuncCtx) axiom(t Term) {
	if t.BC != nil && *t.BC {
		return
	}
	fx.axioms = append(fx.axioms, t)
}

// axiomAlways records a fact about uninterpreted function applications; it is added to every VC that mentions the function.
func (fx *FuncCtx) axiomAlways(t Term) {
	fx.axioms = append(fx.axioms, t)
}

func (fx *FuncCtx) warn(format string, a ...interface{}) {
	fx.warnings[fmt.Sprintf(format, a...)] = true
}

func (st *State) clone() *State {
	ns := &State{fx: st.fx, heap: make(map[*Object]Value, len(st.heap)), discover: st.discover}
	for k, v := range st.heap {
		ns.heap[k] = v
	}
	ns.pc = st.pc[:len(st.pc):len(st.pc)]
	ns.logs = st.logs
	ns.allocN = make(map[ssa.Instruction]int, len(st.allocN))
	for k, v := range st.allocN {
		ns.allocN[k] = v
	}
	for _, f := range st.stack {
		nf := *f
		nf.vals = make(map[ssa.Value]Value, len(f.vals))
		for k, v := range f.vals {
			nf.vals[k] = v
		}
		nf.locals = make(map[string]Value, len(f.locals))
		for k, v := range f.locals {
			nf.locals[k] = v
		}
		nf.localBlk = make(map[string]*ssa.BasicBlock, len(f.localBlk))
		for k, v := range f.localBlk {
			nf.localBlk[k] = v
		}
		nf.visited = make(map[*ssa.BasicBlock]*loopVisit, len(f.visited))
		for k, v := range f.visited {
			nf.visited[k] = v
		}
		ns.stack = append(ns.stack, &nf)
	}
	return ns
}

func (st *State) top() *Frame { return st.stack[len(st.stack)-1] }

func (st *State) assume(t Term) {
	if t.BC != nil && *t.BC {
		return
	}
	st.pc = append(st.pc, t)
}

func (st *State) logWrite(p PtrVal) {
	for _, l := range st.logs {
		if p.Obj.id > l.maxObj {
			continue
		}
		// truncate path at first index
		var key strings.Builder
		fmt.Fprintf(&key, "%d", p.Obj.id)
		tp := PtrVal{Obj: p.Obj, Nil: False()}
		for _, e := range p.Path {
			if e.Field < 0 {
				break
			}
			fmt.Fprintf(&key, ".%d", e.Field)
			tp.Path = append(tp.Path, e)
		}
		l.writes[key.String()] = tp
	}
}

// ---------------------------------------------------------------------------
// obligations

func (st *State) oblige(kind, name string, goal Term, pos token.Pos) {
	if st.discover != nil {
		return
	}
	fx := st.fx
	f := st.top()
	if goal.BC != nil && *goal.BC {
		// trivially true: still record so that counts are stable
	}
	full := f.prefix + name
	o := &Obligation{Name: full, Kind: kind, Goal: goal, PathID: fx.pathID}
	o.Hyps = st.pc[:len(st.pc):len(st.pc)]
	if pos.IsValid() {
		p := fx.eng.fset.Position(pos)
		o.Pos = fmt.Sprintf("%s:%d", shortFile(p.Filename), p.Line)
	}
	fx.obls = append(fx.obls, o)
}

func shortFile(s string) string {
	if i := strings.LastIndex(s, "/"); i >= 0 {
		return s[i+1:]
	}
	return s
}

// siteText returns a stable name for a safety site: the source text of the smallest enclosing expression.
func (fx *FuncCtx) siteText(fn *ssa.Function, pos token.Pos, want string) string {
	if !pos.IsValid() {
		return "?"
	}
	txt := fx.eng.exprTextAt(pos, want)
	return txt
}

// ---------------------------------------------------------------------------
// CFG analysis: loop heads and bodies

func (fx *FuncCtx) cuts(fn *ssa.Function) *CutInfo {
	if ci, ok := fx.cutInfo[fn]; ok {
		return ci
	}
	ci := &CutInfo{heads: map[*ssa.BasicBlock]int{}, body: map[*ssa.BasicBlock]map[*ssa.BasicBlock]bool{}}
	fx.cutInfo[fn] = ci
	if len(fn.Blocks) == 0 {
		return ci
	}
	// DFS for retreating edges
	color := map[*ssa.BasicBlock]int{}
	type edge struct{ u, v *ssa.BasicBlock }
	var retreating []edge
	var dfs func(b *ssa.BasicBlock)
	dfs = func(b *ssa.BasicBlock) {
		color[b] = 1
		for _, s := range b.Succs {
			switch color[s] {
			case 0:
				dfs(s)
			case 1:
				retreating = append(retreating, edge{b, s})
			}
		}
		color[b] = 2
	}
	dfs(fn.Blocks[0])
	heads := map[*ssa.BasicBlock]bool{}
	for _, e := range retreating {
		heads[e.v] = true
	}
	// SCCs for irreducible fallback
	sccOf := sccs(fn)
	for h := range heads {
		body := map[*ssa.BasicBlock]bool{h: true}
		reducible := true
		for _, e := range retreating {
			if e.v != h {
				continue
			}
			if !h.Dominates(e.u) {
				reducible = false
				break
			}
			// natural loop: nodes that reach e.u without passing through h
			var stack []*ssa.BasicBlock
			if !body[e.u] {
				body[e.u] = true
				stack = append(stack, e.u)
			}
			for len(stack) > 0 {
				n := stack[len(stack)-1]
				stack = stack[:len(stack)-1]
				for _, p := range n.Preds {
					if !body[p] {
						body[p] = true
						stack = append(stack, p)
					}
				}
			}
		}
		if !reducible {
			body = map[*ssa.BasicBlock]bool{}
			for _, b := range fn.Blocks {
				if sccOf[b] == sccOf[h] {
					body[b] = true
				}
			}
		}
		ci.body[h] = body
	}
	// ordinals in source order of the head's first positioned instruction (fall back to block index)
	var hs []*ssa.BasicBlock
	for h := range heads {
		hs = append(hs, h)
	}
	sort.Slice(hs, func(i, j int) bool {
		pi, pj := loopPos(hs[i], ci.body[hs[i]]), loopPos(hs[j], ci.body[hs[j]])
		if pi != pj {
			return pi < pj
		}
		return hs[i].Index < hs[j].Index
	})
	for i, h := range hs {
		ci.heads[h] = i
	}
	return ci
}

func loopPos(h *ssa.BasicBlock, body map[*ssa.BasicBlock]bool) token.Pos {
	best := token.Pos(math.MaxInt32)
	for b := range body {
		for _, in := range b.Instrs {
			if _, isPhi := in.(*ssa.Phi); isPhi {
				continue // a phi carries the position of the variable's declaration, not of the loop
			}
			if p := in.Pos(); p.IsValid() && p < best {
				best = p
			}
		}
	}
	return best
}

func sccs(fn *ssa.Function) map[*ssa.BasicBlock]int {
	index := 0
	idx := map[*ssa.BasicBlock]int{}
	low := map[*ssa.BasicBlock]int{}
	on := map[*ssa.BasicBlock]bool{}
	var stack []*ssa.BasicBlock
	res := map[*ssa.BasicBlock]int{}
	comp := 0
	var strong func(v *ssa.BasicBlock)
	strong = func(v *ssa.BasicBlock) {
		index++
		idx[v] = index
		low[v] = index
		stack = append(stack, v)
		on[v] = true
		for _, w := range v.Succs {
			if idx[w] == 0 {
				strong(w)
				if low[w] < low[v] {
					low[v] = low[w]
				}
			} else if on[w] && idx[w] < low[v] {
				low[v] = idx[w]
			}
		}
		if low[v] == idx[v] {
			comp++
			for {
				w := stack[len(stack)-1]
				stack = stack[:len(stack)-1]
				on[w] = false
				res[w] = comp
				if w == v {
					break
				}
			}
		}
	}
	for _, b := range fn.Blocks {
		if idx[b] == 0 {
			strong(b)
		}
	}
	return res
}

// ---------------------------------------------------------------------------
// exploration

// explore runs all paths from the given states; onReturn is called when the outermost frame returns.
func (fx *FuncCtx) explore(start *State, onReturn func(st *State, results []Value)) {
	work := []*State{start}
	saved := fx.suspended
	fx.suspended = map[*ssa.BasicBlock][]*State{}
	defer func() { fx.suspended = saved }()
	for {
		for len(work) > 0 {
			st := work[len(work)-1]
			work = work[:len(work)-1]
			if fx.aborted != "" {
				return
			}
			forks := fx.run(st, onReturn)
			work = append(work, forks...)
		}
		if len(fx.suspended) == 0 {
			return
		}
		// resume the earliest suspended loop head with the join of all its arrivals
		var head *ssa.BasicBlock
		for h := range fx.suspended {
			if head == nil || h.Index < head.Index {
				head = h
			}
		}
		sts := fx.suspended[head]
		delete(fx.suspended, head)
		js := fx.joinStates(sts)
		fx.resumeAtHead(js, head)
		work = append(work, js)
	}
}

// resumeAtHead performs the havoc / assume-invariant step of a loop head on a (joined) state.
func (fx *FuncCtx) resumeAtHead(st *State, blk *ssa.BasicBlock) {
	f := st.top()
	ci := fx.cuts(f.fn)
	ord := ci.heads[blk]
	fx.havocLoop(st, f, blk, ci.body[blk])
	lv := &loopVisit{}
	f.visited[blk] = lv
	fx.assumeInvariants(st, f, ord, lv)
	f.idx = 0
	for f.idx < len(blk.Instrs) {
		if _, ok := blk.Instrs[f.idx].(*ssa.Phi); ok {
			f.idx++
		} else {
			break
		}
	}
	f.entered = true
}

// run executes st until the path ends or forks; returns forked states to continue.
func (fx *FuncCtx) run(st *State, onReturn func(st *State, results []Value)) []*State {
	for {
		if st.dead {
			return nil
		}
		f := st.top()
		if !f.entered {
			f.entered = true
			// entering block f.blk from f.prev: cut point handling
			if done, forks := fx.enterBlock(st); done {
				return forks
			}
		}
		if f.idx >= len(f.blk.Instrs) {
			panic("fell off block")
		}
		in := f.blk.Instrs[f.idx]
		f.idx++
		switch x := in.(type) {
		case *ssa.If:
			c := st.val(x.Cond).(Term)
			tb, fb := f.blk.Succs[0], f.blk.Succs[1]
			if c.BC != nil {
				if *c.BC {
					st.jump(tb)
				} else {
					st.jump(fb)
				}
				continue
			}
			s2 := st.clone()
			st.assume(c)
			st.jump(tb)
			s2.assume(Not(c))
			s2.jump(fb)
			return []*State{st, s2}
		case *ssa.Jump:
			st.jump(f.blk.Succs[0])
			continue
		case *ssa.Return:
			var res []Value
			for _, r := range x.Results {
				res = append(res, st.val(r))
			}
			if len(st.stack) == 1 || (st.discover != nil && len(st.stack)-1 == st.discover.depth) {
				if st.discover == nil {
					fx.pathID++
					fx.npaths++
					onReturn(st, res)
				}
				return nil
			}
			// pop inlined frame
			call := f.call
			st.stack = st.stack[:len(st.stack)-1]
			caller := st.top()
			if call != nil {
				switch len(res) {
				case 0:
				case 1:
					caller.vals[call] = res[0]
				default:
					caller.vals[call] = TupleVal(res)
				}
				if c, ok := call.(*ssa.Call); ok {
					fx.afterCall(st, c)
				}
			}
			continue
		case *ssa.Panic:
			st.oblige("safe", "safe#panic@"+fx.siteText(f.fn, x.Pos(), "panic"), False(), x.Pos())
			fx.endPath(st)
			return nil
		default:
			if st.allocN == nil {
				st.allocN = map[ssa.Instruction]int{}
			}
			occ := st.allocN[in]
			st.allocN[in] = occ + 1
			fx.curSite = fmt.Sprintf("%p/%d/%d", in, len(st.stack), occ)
			fx.siteSeq = 0
			forks, ended := fx.step(st, in)
			fx.curSite = ""
			if ended {
				return forks
			}
			if len(forks) > 0 {
				return append([]*State{st}, forks...)
			}
		}
		if fx.npaths > fx.maxPaths {
			fx.aborted = fmt.Sprintf("path budget exceeded (%d)", fx.maxPaths)
			return nil
		}
	}
}

func (fx *FuncCtx) endPath(st *State) {
	if st.discover == nil {
		fx.pathID++
		fx.npaths++
	}
	st.dead = true
}

func (st *State) jump(to *ssa.BasicBlock) {
	f := st.top()
	f.prev = f.blk
	f.blk = to
	f.idx = 0
	f.entered = false
}

// enterBlock handles phi nodes and cut points. Returns done=true if the path ended or forked.
func (fx *FuncCtx) enterBlock(st *State) (bool, []*State) {
	f := st.top()
	blk := f.blk
	ci := fx.cuts(f.fn)
	ord, isHead := ci.heads[blk]

	if st.discover != nil && len(st.stack)-1 == st.discover.depth {
		d := st.discover
		if blk == d.head && f.prev != nil && d.body[f.prev] && f.visited[blk] != nil {
			// back edge in discovery: record phi inputs, stop
			for _, in := range blk.Instrs {
				phi, ok := in.(*ssa.Phi)
				if !ok {
					break
				}
				for i, p := range blk.Preds {
					if p == f.prev {
						d.phiVals[phi] = append(d.phiVals[phi], st.val(phi.Edges[i]))
					}
				}
			}
			st.dead = true
			return true, nil
		}
		if !d.body[blk] {
			st.dead = true
			return true, nil
		}
	}

	if isHead {
		if lv := f.visited[blk]; lv != nil {
			// arrival through a back edge: evaluate phis, assert invariant + variant, end path
			fx.evalPhis(st)
			fx.assertInvariants(st, f, ord, "preserved", lv)
			fx.endPath(st)
			return true, nil
		}
		// first arrival
		fx.evalPhis(st)
		fx.assertInvariants(st, f, ord, "established", nil)
		if len(st.stack) == 1 && st.discover == nil && fx.suspended != nil {
			// suspend: all first arrivals at this head are joined into one state (join.go)
			fx.suspended[blk] = append(fx.suspended[blk], st)
			return true, nil
		}
		fx.havocLoop(st, f, blk, ci.body[blk])
		lv := &loopVisit{}
		f.visited[blk] = lv
		fx.assumeInvariants(st, f, ord, lv)
		// skip phi instructions
		for f.idx < len(blk.Instrs) {
			if _, ok := blk.Instrs[f.idx].(*ssa.Phi); ok {
				f.idx++
			} else {
				break
			}
		}
		return false, nil
	}
	fx.evalPhis(st)
	for f.idx < len(blk.Instrs) {
		if _, ok := blk.Instrs[f.idx].(*ssa.Phi); ok {
			f.idx++
		} else {
			break
		}
	}
	return false, nil
}

func (fx *FuncCtx) evalPhis(st *State) {
	f := st.top()
	blk := f.blk
	var phis []*ssa.Phi
	var vals []Value
	for _, in := range blk.Instrs {
		phi, ok := in.(*ssa.Phi)
		if !ok {
			break
		}
		for i, p := range blk.Preds {
			if p == f.prev {
				phis = append(phis, phi)
				vals = append(vals, st.val(phi.Edges[i]))
				break
			}
		}
	}
	for i, phi := range phis {
		f.vals[phi] = vals[i]
	}
}

// havocLoop discovers what the loop writes (by a dry run over all its paths) and havocs it.
func (fx *FuncCtx) havocLoop(st *State, f *Frame, head *ssa.BasicBlock, body map[*ssa.BasicBlock]bool) {
	// dry run over all paths of the loop body to find what it writes
	wl := &writeLog{maxObj: fx.objID, writes: map[string]PtrVal{}}
	d := &discoverCtx{depth: len(st.stack) - 1, head: head, body: body, phiVals: map[*ssa.Phi][]Value{}}
	ds := st.clone()
	ds.discover = d
	ds.logs = append(append([]*writeLog{}, st.logs...), wl)
	df := ds.top()
	df.visited[head] = &loopVisit{}
	df.idx = 0
	for df.idx < len(head.Instrs) {
		if _, ok := head.Instrs[df.idx].(*ssa.Phi); ok {
			df.idx++
		} else {
			break
		}
	}
	df.entered = true
	savePaths, savePid := fx.npaths, fx.pathID
	fx.explore(ds, func(*State, []Value) {})
	fx.npaths, fx.pathID = savePaths, savePid

	// havoc heap locations
	var keys []string
	for k := range wl.writes {
		keys = append(keys, k)
	}
	sort.Strings(keys)
	for _, k := range keys {
		p := wl.writes[k]
		if _, inHeap := st.heap[p.Obj]; !inHeap && p.Obj.Init == nil {
			continue // a per-site object this path has not allocated (yet): nothing to havoc
		}
		old := st.Load(p, nil)
		nv := fx.havocValue(old, "hv."+p.Obj.Name+fieldPathName(p))
		st.heap[p.Obj] = fx.inject(st.objValue(p.Obj), p.Path, nv)
		// propagate to outer logs
		st.logWrite(p)
	}
	// havoc phis
	for _, in := range head.Instrs {
		phi, ok := in.(*ssa.Phi)
		if !ok {
			break
		}
		cur := f.vals[phi]
		same := true
		if sv, ok := cur.(SliceVal); ok {
			for _, bv := range d.phiVals[phi] {
				if bsv, ok := bv.(SliceVal); ok {
					if s, known := samePtr(sv.Base, bsv.Base); !(s && known) {
						same = false
					}
				} else {
					same = false
				}
			}
		}
		nv := fx.havocValueKeep(cur, "phi."+phi.Name(), same)
		f.vals[phi] = nv
	}
}

// havocValue returns a fresh value of the same shape as old.
func (fx *FuncCtx) havocValue(old Value, hint string) Value {
	return fx.havocValueKeep(old, hint, true)
}

func (fx *FuncCtx) havocValueKeep(old Value, hint string, keepBase bool) Value {
	switch x := old.(type) {
	case Term:
		return fx.FreshSym(hint, x.So)
	case StructVal:
		nf := make([]Value, len(x.Fields))
		st, _ := x.T.Underlying().(*types.Struct)
		for i, fv := range x.Fields {
			nm := fmt.Sprint(i)
			if st != nil {
				nm = st.Field(i).Name()
			}
			nf[i] = fx.havocValueKeep(fv, hint+"."+nm, keepBase)
		}
		return StructVal{Fields: nf, T: x.T}
	case ArrayVal:
		return ArrayVal{Arr: fx.FreshSym(hint, x.Arr.So), ElemT: x.ElemT, Opaque: x.Opaque}
	case SliceVal:
		if keepBase {
			off := fx.FreshSym(hint+".off", SBV64)
			l := fx.FreshSym(hint+".len", SBV64)
			c := fx.FreshSym(hint+".cap", SBV64)
			n := fx.FreshSym(hint+".isnil", SBool)
			lim := BVConstU(64, 1<<maxSliceLog)
			fx.axiom(And(BVSle(BVConst(64, 0), off), BVSlt(off, lim), BVSle(BVConst(64, 0), l), BVSle(l, c), BVSlt(c, lim),
				Implies(n, Eq(c, BVConst(64, 0)))))
			return SliceVal{Base: x.Base, Off: off, Len: l, Cap: c, Nil: n, ElemT: x.ElemT}
		}
		return fx.Fresh(types.NewSlice(x.ElemT), hint)
	case StringVal:
		return fx.Fresh(types.Typ[types.String], hint)
	case PtrVal:
		// a pointer modified in a loop: unknown target afterwards
		if x.Elem != nil {
			return PtrVal{Lazy: &LazyCell{T: x.Elem, nm: hint}, Nil: fx.FreshSym(hint+".isnil", SBool), Elem: x.Elem}
		}
		return x
	case IfaceVal:
		return IfaceVal{Nil: fx.FreshSym(hint+".isnil", SBool), T: x.T}
	case MapVal:
		l := fx.FreshSym(hint+".maplen", SBV64)
		fx.axiom(BVSle(BVConst(64, 0), l))
		fx.mapID++
		return MapVal{Len: l, ID: fx.mapID, T: x.T}
	case TupleVal:
		nt := make(TupleVal, len(x))
		for i, v := range x {
			nt[i] = fx.havocValueKeep(v, fmt.Sprintf("%s.%d", hint, i), keepBase)
		}
		return nt
	}
	return old
}

// ---------------------------------------------------------------------------
// value lookup

func (st *State) val(v ssa.Value) Value {
	f := st.top()
	if x, ok := f.vals[v]; ok {
		return x
	}
	fx := st.fx
	switch c := v.(type) {
	case *ssa.Const:
		return fx.constValue(c)
	case *ssa.Global:
		return PtrVal{Obj: fx.eng.globalObject(fx, c), Nil: False(), Elem: c.Type().(*types.Pointer).Elem()}
	case *ssa.Function:
		return OpaqueVal{T: c.Type(), Desc: "func " + c.Name()}
	case *ssa.Builtin:
		return OpaqueVal{T: c.Type(), Desc: "builtin " + c.Name()}
	case *ssa.FreeVar:
		nv := fx.Fresh(c.Type(), "freevar."+c.Name())
		f.vals[v] = nv
		return nv
	}
	panic(fmt.Sprintf("no value for %s (%T) in %s", v.Name(), v, f.fn.Name()))
}

func (fx *FuncCtx) constValue(c *ssa.Const) Value {
	t := c.Type()
	if c.Value == nil {
		return fx.Zero(t)
	}
	if isStringType(t) {
		s := constant.StringVal(c.Value)
		arr := ConstArr(SBV8, BVConst(8, 0))
		for i := 0; i < len(s); i++ {
			arr = Store(arr, BVConst(64, int64(i)), BVConstU(8, uint64(s[i])))
		}
		o := fx.newObject(types.NewArray(types.Typ[types.Uint8], int64(len(s))), "strconst")
		o.Init = ArrayVal{Arr: arr, ElemT: types.Typ[types.Uint8]}
		return StringVal{Base: PtrVal{Obj: o, Nil: False()}, Off: BVConst(64, 0), Len: BVConst(64, int64(len(s)))}
	}
	so, ok := sortOfType(t)
	if !ok {
		return OpaqueVal{T: t, Desc: "const"}
	}
	switch so.K {
	case KBool:
		return BoolC(constant.BoolVal(c.Value))
	case KFP:
		f, _ := constant.Float64Val(constant.ToFloat(c.Value))
		return FPConstBits(math.Float64bits(f))
	case KBV:
		iv := constant.ToInt(c.Value)
		if iv.Kind() != constant.Int {
			panic("non-int const for int type")
		}
		bi, ok := constant.Val(iv).(interface{ String() string })
		_ = bi
		_ = ok
		return BVConstBig(so.W, bigOf(iv))
	}
	return OpaqueVal{T: t}
}

var _ = ast.Print

// siteObject returns the heap object allocated by instruction in at its n-th execution on this
// path. Identity is shared between paths (the same allocation site and occurrence is the same
// object in every path), which lets states be joined at loop heads.
func (st *State) siteObject(in ssa.Instruction, t types.Type, name string) *Object {
	fx := st.fx
	if st.allocN == nil {
		st.allocN = map[ssa.Instruction]int{}
	}
	fx.siteSeq++
	key := fmt.Sprintf("%s/obj%d/%s", fx.curSite, fx.siteSeq, name)
	if fx.curSite == "" {
		return fx.newObject(t, name)
	}
	if fx.siteObjs == nil {
		fx.siteObjs = map[string]*Object{}
	}
	if o, ok := fx.siteObjs[key]; ok {
		return o
	}
	o := fx.newObject(t, name)
	fx.siteObjs[key] = o
	return o
}

func fieldPathName(p PtrVal) string {
	var b strings.Builder
	t := p.Obj.T
	for _, e := range p.Path {
		if e.Field < 0 || t == nil {
			break
		}
		st, ok := t.Underlying().(*types.Struct)
		if !ok || e.Field >= st.NumFields() {
			break
		}
		b.WriteString("." + st.Field(e.Field).Name())
		t = st.Field(e.Field).Type()
	}
	return b.String()
}
