package main

// Replay generation: turn a solver model of a failed obligation into an in-package Go test that
// builds the function's inputs, checks the compiled precondition, calls the real function under
// recover and evaluates the compiled postcondition.

import (
	"bytes"
	"context"
	"fmt"
	"go/ast"
	"go/format"
	"go/types"
	"math/big"
	"os"
	"path/filepath"
	"sort"
	"strings"
	"time"

	"golang.org/x/tools/go/ssa"
)

type replayBuilder struct {
	fx      *FuncCtx
	fr      *FuncResult
	queries []string          // SMT terms to evaluate
	qidx    map[string]int    // term -> index
	vals    []*sx             // model values
	objVar  map[*Object]string // heap objects already declared
	decls   []string
	nvar    int
	unsup   string
}

func (rb *replayBuilder) q(t Term) int {
	if i, ok := rb.qidx[t.S]; ok {
		return i
	}
	rb.qidx[t.S] = len(rb.queries)
	rb.queries = append(rb.queries, t.S)
	return len(rb.queries) - 1
}

const replayArrWindow = 48

// collect registers every model term needed to rebuild value v.
func (rb *replayBuilder) collect(v Value, seen map[*Object]bool) {
	st := rb.fx.entry
	switch x := v.(type) {
	case Term:
		rb.q(x)
	case StructVal:
		for _, f := range x.Fields {
			rb.collect(f, seen)
		}
	case ArrayVal:
		if !x.Opaque {
			for k := 0; k < replayArrWindow; k++ {
				rb.q(Select(x.Arr, i64(int64(k))))
			}
		}
	case SliceVal:
		rb.q(x.Len)
		rb.q(x.Cap)
		rb.q(x.Nil)
		rb.q(x.Off)
		a := st.baseArr(x.Base)
		if !a.Opaque && a.Arr.So.Elem.K != KArr {
			for k := 0; k < replayArrWindow; k++ {
				rb.q(Select(a.Arr, BVAdd(x.Off, i64(int64(k)))))
			}
		}
	case StringVal:
		rb.q(x.Len)
		a := st.baseArr(x.Base)
		for k := 0; k < replayArrWindow; k++ {
			rb.q(Select(a.Arr, BVAdd(x.Off, i64(int64(k)))))
		}
	case PtrVal:
		rb.q(x.Nil)
		p := x
		if p.Obj == nil && p.Lazy != nil && p.Lazy.obj != nil {
			p = rb.fx.materialise(x)
		}
		if p.Obj != nil && !seen[p.Obj] && len(p.Path) == 0 {
			seen[p.Obj] = true
			rb.collect(st.objValue(p.Obj), seen)
		}
	case IfaceVal:
	case MapVal:
		rb.q(x.Len)
	}
}

func (rb *replayBuilder) bv(i int) (*big.Int, int, bool) {
	v := rb.vals[i]
	if v == nil || v.kids != nil {
		return nil, 0, false
	}
	a := v.atom
	switch {
	case strings.HasPrefix(a, "#x"):
		n, ok := new(big.Int).SetString(a[2:], 16)
		return n, 4 * (len(a) - 2), ok
	case strings.HasPrefix(a, "#b"):
		n, ok := new(big.Int).SetString(a[2:], 2)
		return n, len(a) - 2, ok
	}
	return nil, 0, false
}

func (rb *replayBuilder) boolv(i int) bool {
	v := rb.vals[i]
	return v != nil && v.atom == "true"
}

func (rb *replayBuilder) termLit(t Term, typ types.Type) string {
	i := rb.q(t)
	switch t.So.K {
	case KBool:
		if rb.boolv(i) {
			return "true"
		}
		return "false"
	case KFP:
		bits := fpBits(rb.vals[i])
		return fmt.Sprintf("math.Float64frombits(0x%x)", bits)
	case KBV:
		n, w, ok := rb.bv(i)
		if !ok {
			rb.unsup = "unparsed model value for " + t.S
			return "0"
		}
		ts := "uint64"
		if typ != nil {
			ts = types.TypeString(typ, qual(rb.fx.eng.tpkg))
		}
		if typ != nil && isSignedType(typ) {
			return fmt.Sprintf("%s(%s)", ts, signed(w, n).String())
		}
		if _, isPtr := typ.(*types.Pointer); isPtr {
			return "nil"
		}
		return fmt.Sprintf("%s(0x%s)", ts, n.Text(16))
	}
	rb.unsup = "unsupported term sort"
	return "0"
}

func fpBits(v *sx) uint64 {
	if v == nil {
		return 0
	}
	if v.kids == nil {
		return 0
	}
	h := v.head()
	if h == "fp" && len(v.kids) == 4 {
		get := func(a string) uint64 {
			if strings.HasPrefix(a, "#b") {
				n, _ := new(big.Int).SetString(a[2:], 2)
				return n.Uint64()
			}
			if strings.HasPrefix(a, "#x") {
				n, _ := new(big.Int).SetString(a[2:], 16)
				return n.Uint64()
			}
			return 0
		}
		return get(v.kids[1].atom)<<63 | get(v.kids[2].atom)<<52 | get(v.kids[3].atom)
	}
	if h == "_" && len(v.kids) >= 2 {
		switch v.kids[1].atom {
		case "+zero":
			return 0
		case "-zero":
			return 1 << 63
		case "+oo":
			return 0x7FF0000000000000
		case "-oo":
			return 0xFFF0000000000000
		case "NaN":
			return 0x7FF8000000000001
		}
	}
	return 0
}

func (rb *replayBuilder) intOf(t Term) (int64, bool) {
	n, w, ok := rb.bv(rb.q(t))
	if !ok {
		return 0, false
	}
	s := signed(w, n)
	if !s.IsInt64() {
		return 0, false
	}
	return s.Int64(), true
}

// goExpr renders value v of static type typ as a Go expression.
func (rb *replayBuilder) goExpr(v Value, typ types.Type) string {
	st := rb.fx.entry
	ts := types.TypeString(typ, qual(rb.fx.eng.tpkg))
	switch x := v.(type) {
	case Term:
		return rb.termLit(x, typ)
	case StructVal:
		stt, ok := typ.Underlying().(*types.Struct)
		if !ok {
			rb.unsup = "struct value for non-struct type " + ts
			return ts + "{}"
		}
		var parts []string
		for i, f := range x.Fields {
			fld := stt.Field(i)
			switch f.(type) {
			case OpaqueVal, IfaceVal:
				continue
			}
			if ch, ok := fld.Type().Underlying().(*types.Chan); ok && ch != nil {
				continue
			}
			parts = append(parts, fld.Name()+": "+rb.goExpr(f, fld.Type()))
		}
		return ts + "{" + strings.Join(parts, ", ") + "}"
	case ArrayVal:
		at, ok := typ.Underlying().(*types.Array)
		if !ok || x.Opaque || x.Arr.So.Elem.K == KArr {
			return ts + "{}"
		}
		var parts []string
		for k := int64(0); k < replayArrWindow && k < at.Len(); k++ {
			lit := rb.termLit(Select(x.Arr, i64(k)), at.Elem())
			parts = append(parts, fmt.Sprintf("%d: %s", k, lit))
		}
		return ts + "{" + strings.Join(parts, ", ") + "}"
	case SliceVal:
		if rb.boolv(rb.q(x.Nil)) {
			return "nil"
		}
		ln, ok1 := rb.intOf(x.Len)
		cp, ok2 := rb.intOf(x.Cap)
		if !ok1 || !ok2 || ln < 0 || ln > 1<<16 {
			rb.unsup = fmt.Sprintf("slice too large to build (len %d)", ln)
			return "nil"
		}
		if cp > ln+64 {
			cp = ln + 64
		}
		a := st.baseArr(x.Base)
		ets := types.TypeString(x.ElemT, qual(rb.fx.eng.tpkg))
		var parts []string
		if !a.Opaque && a.Arr.So.Elem.K != KArr {
			for k := int64(0); k < replayArrWindow && k < cp; k++ {
				lit := rb.termLit(Select(a.Arr, BVAdd(x.Off, i64(k))), x.ElemT)
				parts = append(parts, fmt.Sprintf("%d: %s", k, lit))
			}
		}
		return fmt.Sprintf("verifMkSlice[%s](%d, %d, map[int]%s{%s})", ets, ln, cp, ets, strings.Join(parts, ", "))
	case StringVal:
		ln, ok := rb.intOf(x.Len)
		if !ok || ln < 0 || ln > replayArrWindow {
			rb.unsup = "string too long to build"
			return `""`
		}
		a := st.baseArr(x.Base)
		var bs []string
		for k := int64(0); k < ln; k++ {
			n, _, _ := rb.bv(rb.q(Select(a.Arr, BVAdd(x.Off, i64(k)))))
			if n == nil {
				n = big.NewInt(0)
			}
			bs = append(bs, fmt.Sprintf("0x%x", n.Uint64()))
		}
		return "string([]byte{" + strings.Join(bs, ", ") + "})"
	case PtrVal:
		if rb.boolv(rb.q(x.Nil)) {
			return "nil"
		}
		p := x
		if p.Obj == nil && p.Lazy != nil {
			if p.Lazy.obj == nil {
				// never dereferenced on any path, but the model says it is not nil: any fresh zero object will do
				if pt, ok := typ.Underlying().(*types.Pointer); ok {
					return "new(" + types.TypeString(pt.Elem(), qual(rb.fx.eng.tpkg)) + ")"
				}
				return "nil"
			}
			p = rb.fx.materialise(x)
		}
		if p.Obj == nil || len(p.Path) != 0 {
			rb.unsup = "interior or unknown pointer"
			return "nil"
		}
		if name, ok := rb.objVar[p.Obj]; ok {
			return name
		}
		pt, ok := typ.Underlying().(*types.Pointer)
		if !ok {
			return "nil"
		}
		rb.nvar++
		name := fmt.Sprintf("o%d", rb.nvar)
		rb.objVar[p.Obj] = name
		inner := rb.goExpr(st.objValue(p.Obj), pt.Elem())
		if _, isStruct := pt.Elem().Underlying().(*types.Struct); isStruct {
			rb.decls = append(rb.decls, fmt.Sprintf("%s := &%s", name, inner))
		} else {
			rb.decls = append(rb.decls, fmt.Sprintf("%s := new(%s); *%s = %s", name, types.TypeString(pt.Elem(), qual(rb.fx.eng.tpkg)), name, inner))
		}
		return name
	case MapVal:
		return "nil"
	case IfaceVal, OpaqueVal:
		if sig, ok := typ.Underlying().(*types.Signature); ok {
			// callback stub returning zero values
			var outs []string
			for i := 0; i < sig.Results().Len(); i++ {
				rt := sig.Results().At(i).Type()
				if b, ok := rt.Underlying().(*types.Basic); ok && b.Kind() == types.Bool {
					outs = append(outs, "true")
				} else {
					outs = append(outs, "*new("+types.TypeString(rt, qual(rb.fx.eng.tpkg))+")")
				}
			}
			body := ""
			if len(outs) > 0 {
				body = "return " + strings.Join(outs, ", ")
			}
			return "func" + strings.TrimPrefix(types.TypeString(sig, qual(rb.fx.eng.tpkg)), "func") + " { " + body + " }"
		}
		return "nil"
	}
	rb.unsup = fmt.Sprintf("cannot build %T", v)
	return "nil"
}

// rewriteOld prints expr with old(e) replaced by e over the pre-state copies (params renamed old_<p>).
func (rb *replayBuilder) rewriteOld(expr ast.Expr, params map[string]bool) string {
	var walk func(n ast.Node, inOld bool) ast.Node
	cp := func(e ast.Expr, inOld bool) ast.Expr {
		r := walk(e, inOld)
		if r == nil {
			return nil
		}
		return r.(ast.Expr)
	}
	walk = func(n ast.Node, inOld bool) ast.Node {
		switch x := n.(type) {
		case nil:
			return nil
		case *ast.Ident:
			if inOld && params[x.Name] {
				return &ast.Ident{Name: "old_" + x.Name}
			}
			return &ast.Ident{Name: x.Name}
		case *ast.BasicLit:
			return &ast.BasicLit{Kind: x.Kind, Value: x.Value}
		case *ast.ParenExpr:
			return &ast.ParenExpr{X: cp(x.X, inOld)}
		case *ast.SelectorExpr:
			return &ast.SelectorExpr{X: cp(x.X, inOld), Sel: &ast.Ident{Name: x.Sel.Name}}
		case *ast.IndexExpr:
			return &ast.IndexExpr{X: cp(x.X, inOld), Index: cp(x.Index, inOld)}
		case *ast.SliceExpr:
			return &ast.SliceExpr{X: cp(x.X, inOld), Low: cp(x.Low, inOld), High: cp(x.High, inOld), Max: cp(x.Max, inOld), Slice3: x.Slice3}
		case *ast.StarExpr:
			return &ast.StarExpr{X: cp(x.X, inOld)}
		case *ast.UnaryExpr:
			return &ast.UnaryExpr{Op: x.Op, X: cp(x.X, inOld)}
		case *ast.BinaryExpr:
			return &ast.BinaryExpr{X: cp(x.X, inOld), Op: x.Op, Y: cp(x.Y, inOld)}
		case *ast.CallExpr:
			if id, ok := x.Fun.(*ast.Ident); ok && id.Name == "old" && len(x.Args) == 1 {
				return &ast.ParenExpr{X: cp(x.Args[0], true)}
			}
			c := &ast.CallExpr{Fun: cp(x.Fun, inOld), Ellipsis: x.Ellipsis}
			for _, a := range x.Args {
				c.Args = append(c.Args, cp(a, inOld))
			}
			return c
		case *ast.FuncLit:
			body := &ast.BlockStmt{}
			for _, s := range x.Body.List {
				if rs, ok := s.(*ast.ReturnStmt); ok {
					nr := &ast.ReturnStmt{}
					for _, r := range rs.Results {
						nr.Results = append(nr.Results, cp(r, inOld))
					}
					body.List = append(body.List, nr)
				}
			}
			return &ast.FuncLit{Type: x.Type, Body: body}
		}
		return n
	}
	out := walk(expr, false)
	var buf bytes.Buffer
	if err := format.Node(&buf, rb.fx.eng.fset, out); err != nil {
		return "true /* unprintable: " + err.Error() + " */"
	}
	return buf.String()
}

// buildReplay writes a Go test file for the failed obligation instance o; returns its path or a reason.
func (sv *Solver) buildReplay(fr *FuncResult, ax []axiomInfo, o *Obligation, dir string) (string, string) {
	sv.replayMu.Lock()
	defer sv.replayMu.Unlock()
	fx := fr.Fx
	if fx == nil || fx.entry == nil {
		return "", "no entry state"
	}
	rb := &replayBuilder{fx: fx, fr: fr, qidx: map[string]int{}, objVar: map[*Object]string{}}
	fn := fx.fn
	seen := map[*Object]bool{}
	var names []string
	for _, p := range fn.Params {
		names = append(names, p.Name())
		rb.collect(fx.params[p.Name()], seen)
	}
	var gnames []string
	for g := range fx.ghost {
		gnames = append(gnames, g)
	}
	sort.Strings(gnames)
	for _, g := range gnames {
		rb.collect(fx.ghost[g], seen)
	}
	// solve: prefer small models
	base := vcText(fr, ax, o, true)
	base = strings.Replace(base, "(check-sat)\n(get-model)\n", "", 1)
	var small strings.Builder
	for _, qs := range rb.queries {
		if strings.HasSuffix(strings.SplitN(qs, "!", 2)[0], ".len") || strings.HasSuffix(strings.SplitN(qs, "!", 2)[0], ".slen") {
			fmt.Fprintf(&small, "(assert (bvsle %s #x0000000000000040))\n", qs)
		}
		if strings.HasSuffix(strings.SplitN(qs, "!", 2)[0], ".cap") {
			fmt.Fprintf(&small, "(assert (bvsle %s #x0000000000000080))\n", qs)
		}
	}
	getv := "(check-sat)\n(get-value (" + strings.Join(rb.queries, "\n ") + "))\n"
	// declarations for symbols that only occur in the queries
	extra := map[string]bool{}
	for _, qs := range rb.queries {
		symsOf(qs, extra)
	}
	var decl strings.Builder
	for _, name := range fr.DeclOrd {
		if extra[name] && !strings.Contains(base, "(declare-const "+name+" ") {
			fmt.Fprintf(&decl, "(declare-const %s %s)\n", name, fr.Decls[name])
		}
	}
	base = strings.Replace(base, "(set-logic ALL)\n", "(set-logic ALL)\n"+decl.String(), 1)
	var out string
	for _, script := range []string{base + small.String() + getv, base + getv} {
		file := filepath.Join(sv.scratch, fmt.Sprintf("replay_%d.smt2", time.Now().UnixNano()))
		os.WriteFile(file, []byte(script), 0o644)
		ctx, cancel := context.WithTimeout(context.Background(), 20*time.Second)
		st, o1 := runOne(ctx, "z3-new", []string{"-T:15"}, file)
		if st != "sat" {
			st, o1 = runOne(ctx, "cvc5", []string{"--tlimit=15000", "--produce-models"}, file)
		}
		cancel()
		os.Remove(file)
		if st == "sat" {
			out = o1
			break
		}
	}
	if out == "" {
		return "", "no model for the replay query (quantified VC or solver limit)"
	}
	idx := strings.Index(out, "\n")
	vals := parseSx(out[idx+1:])
	if vals == nil || len(vals.kids) < len(rb.queries) {
		return "", "could not parse get-value output"
	}
	rb.vals = make([]*sx, len(rb.queries))
	for i := range rb.queries {
		pair := vals.kids[i]
		if len(pair.kids) == 2 {
			rb.vals[i] = pair.kids[1]
		}
	}
	// build the test
	pset := map[string]bool{}
	var body strings.Builder
	var args []string
	sig := fn.Signature
	for i, p := range fn.Params {
		pset[p.Name()] = true
		e := rb.goExpr(fx.params[p.Name()], p.Type())
		if e == "nil" {
			fmt.Fprintf(&body, "\tvar %s %s\n\t_ = %s\n", p.Name(), types.TypeString(p.Type(), qual(rb.fx.eng.tpkg)), p.Name())
		} else {
			fmt.Fprintf(&body, "\t%s := %s\n\t_ = %s\n", p.Name(), e, p.Name())
		}
		if i == 0 && sig.Recv() != nil {
			continue
		}
		if sig.Variadic() && i == len(fn.Params)-1 {
			args = append(args, p.Name()+"...")
		} else {
			args = append(args, p.Name())
		}
	}
	for _, g := range gnames {
		var gt types.Type
		for _, gg := range fx.ct.Ghosts {
			if gg.Name == g {
				gt = gg.T
			}
		}
		fmt.Fprintf(&body, "\t%s := %s\n\t_ = %s\n", g, rb.goExpr(fx.ghost[g], gt), g)
	}
	if rb.unsup != "" {
		return "", "inputs not constructible: " + rb.unsup
	}
	var pre []string
	for _, c := range fx.ct.Requires {
		pre = append(pre, "("+rb.rewriteOld(c.Expr, pset)+")")
	}
	if len(pre) == 0 {
		pre = []string{"true"}
	}
	// results
	var resNames, resDecl []string
	for i := 0; i < sig.Results().Len(); i++ {
		r := sig.Results().At(i)
		nm := fmt.Sprintf("result%d", i)
		resNames = append(resNames, nm)
		resDecl = append(resDecl, fmt.Sprintf("\tvar %s %s\n\t_ = %s\n", nm, types.TypeString(r.Type(), qual(fx.eng.tpkg)), nm))
	}
	call := fn.Name() + "(" + strings.Join(args, ", ") + ")"
	if sig.Recv() != nil {
		call = fn.Params[0].Name() + "." + call
	}
	if len(resNames) > 0 {
		call = strings.Join(resNames, ", ") + " = " + call
	}
	var post []string
	if o.Kind == "ensures" {
		cname := strings.TrimPrefix(o.Name, "ensures#")
		for _, c := range fx.ct.Ensures {
			if c.Name == cname {
				post = append(post, "("+rb.rewriteOld(c.Expr, pset)+")")
			}
		}
	}
	var src strings.Builder
	src.WriteString("package simdjson\n\nimport (\n\t\"fmt\"\n\t\"math\"\n\t\"testing\"\n)\n\nvar _ = math.MaxInt64\n\n")
	fmt.Fprintf(&src, "// replay of obligation %s / %s\nfunc TestVerifReplay(t *testing.T) {\n", fr.Func, o.Name)
	for _, d := range rb.decls {
		fmt.Fprintf(&src, "\t%s\n", d)
	}
	src.WriteString(body.String())
	fmt.Fprintf(&src, "\tpre := %s\n\tfmt.Println(\"REPLAY-PRE\", pre)\n\tif !pre {\n\t\treturn\n\t}\n", strings.Join(pre, " && "))
	for _, p := range fn.Params {
		fmt.Fprintf(&src, "\told_%s := verifClone(%s)\n\t_ = old_%s\n", p.Name(), p.Name(), p.Name())
	}
	for _, d := range resDecl {
		src.WriteString(d)
	}
	if len(resNames) == 1 {
		fmt.Fprintf(&src, "\tvar result %s\n\t_ = result\n", types.TypeString(sig.Results().At(0).Type(), qual(fx.eng.tpkg)))
	}
	for i := 0; i < sig.Results().Len(); i++ {
		if nm := sig.Results().At(i).Name(); nm != "" && nm != "_" && !pset[nm] {
			fmt.Fprintf(&src, "\tvar %s %s\n\t_ = %s\n", nm, types.TypeString(sig.Results().At(i).Type(), qual(fx.eng.tpkg)), nm)
		}
	}
	src.WriteString("\tpanicked := false\n\tfunc() {\n\t\tdefer func() {\n\t\t\tif r := recover(); r != nil {\n\t\t\t\tpanicked = true\n\t\t\t\tfmt.Println(\"REPLAY-PANIC:\", r)\n\t\t\t}\n\t\t}()\n")
	fmt.Fprintf(&src, "\t\t%s\n\t}()\n", call)
	if len(resNames) == 1 {
		src.WriteString("\tresult = result0\n")
	}
	for i := 0; i < sig.Results().Len(); i++ {
		if nm := sig.Results().At(i).Name(); nm != "" && nm != "_" && !pset[nm] {
			fmt.Fprintf(&src, "\t%s = result%d\n", nm, i)
		}
	}
	src.WriteString("\tif panicked {\n\t\treturn\n\t}\n")
	if len(post) > 0 {
		fmt.Fprintf(&src, "\tfmt.Println(\"REPLAY-POST\", %s)\n", strings.Join(post, " && "))
	} else {
		src.WriteString("\tfmt.Println(\"REPLAY-RETURNED\")\n")
	}
	src.WriteString("}\n")
	os.MkdirAll(dir, 0o755)
	path := filepath.Join(dir, "replay_"+sanitize(fr.Func+"_"+fr.Variant+"_"+o.Name)+"_test.go")
	if err := os.WriteFile(path, []byte(src.String()), 0o644); err != nil {
		return "", err.Error()
	}
	return path, ""
}

var _ = ssa.BuilderMode(0)
