package main

import (
	"encoding/json"
	"flag"
	"fmt"
	"go/constant"
	"go/types"
	"golang.org/x/tools/go/ssa"
	"os"
	"regexp"
	"sort"
	"sync"
	"time"
)

type FuncOut struct {
	Func     string       `json:"func"`
	Variant  string       `json:"variant,omitempty"`
	Error    string       `json:"error,omitempty"`
	Paths    int          `json:"paths"`
	Warnings []string     `json:"warnings,omitempty"`
	Obls     []*OblResult `json:"obligations"`
	Time     float64      `json:"time_s"`
	Props    []string     `json:"props,omitempty"`
}

type Output struct {
	Repo     string       `json:"repo"`
	Tags     string       `json:"tags"`
	LoadTime float64      `json:"load_time_s"`
	Funcs    []*FuncOut   `json:"funcs"`
	Trusted  []string     `json:"trusted_contracts,omitempty"`
	Tables   []*OblResult `json:"table_facts,omitempty"`
	Error    string       `json:"error,omitempty"`
}

func constantToInt(tv types.TypeAndValue) constant.Value { return constant.ToInt(tv.Value) }

func main() {
	repo := flag.String("repo", "/repo", "repository root")
	tags := flag.String("tags", "verif", "build tags")
	out := flag.String("out", "", "output JSON (default stdout)")
	only := flag.String("only", "", "regexp on func key (and variant) to verify")
	props := flag.String("props", "", "only contracts serving one of these comma-separated properties")
	timeout := flag.Int("timeout", 10, "solver timeout per VC (s)")
	par := flag.Int("j", 16, "parallel solver processes")
	scratch := flag.String("scratch", "", "scratch dir for .smt2 files")
	replayDir := flag.String("replaydir", "", "write replay tests for failed obligations into this directory")
	cutsOf := flag.String("cuts", "", "print the loop heads (cut points) of this function key and exit")
	dump := flag.String("dump", "", "dump VCs of obligations matching this regexp to scratch and keep them")
	flag.Parse()

	res := &Output{Repo: *repo, Tags: *tags}
	emit := func() {
		var f *os.File = os.Stdout
		if *out != "" {
			var err error
			f, err = os.Create(*out)
			if err != nil {
				panic(err)
			}
			defer f.Close()
		}
		enc := json.NewEncoder(f)
		enc.SetIndent("", " ")
		enc.Encode(res)
	}
	t0 := time.Now()
	eng, err := loadEngine(*repo, *tags, "")
	if err != nil {
		res.Error = err.Error()
		emit()
		os.Exit(2)
	}
	res.LoadTime = time.Since(t0).Seconds()
	if *cutsOf != "" {
		fn := eng.funcs[*cutsOf]
		if fn == nil {
			fmt.Println("no such function")
			os.Exit(2)
		}
		tmp := &FuncCtx{eng: eng, cutInfo: map[*ssa.Function]*CutInfo{}}
		ci := tmp.cuts(fn)
		type hh struct {
			ord int
			b   *ssa.BasicBlock
		}
		var hs []hh
		for b, o := range ci.heads {
			hs = append(hs, hh{o, b})
		}
		sort.Slice(hs, func(i, j int) bool { return hs[i].ord < hs[j].ord })
		for _, h := range hs {
			pos := ""
			for _, in := range h.b.Instrs {
				if in.Pos().IsValid() {
					pos = eng.fset.Position(in.Pos()).String()
					break
				}
			}
			fmt.Printf("loop %d: block %d comment=%q body=%d blocks first=%s\n", h.ord, h.b.Index, h.b.Comment, len(ci.body[h.b]), pos)
		}
		os.Exit(0)
	}
	if *scratch == "" {
		d, _ := os.MkdirTemp("/var/tmp", "govc.")
		*scratch = d
		defer os.RemoveAll(d)
	}
	os.MkdirAll(*scratch, 0o755)
	sv := newSolver(*scratch, time.Duration(*timeout)*time.Second, *par, "")
	sv.replayDir = *replayDir
	var onlyRe *regexp.Regexp
	if *only != "" {
		onlyRe = regexp.MustCompile(*only)
	}
	var dumpRe *regexp.Regexp
	if *dump != "" {
		dumpRe = regexp.MustCompile(*dump)
	}
	wantProps := map[string]bool{}
	if *props != "" {
		for _, p := range regexp.MustCompile(`[ ,]+`).Split(*props, -1) {
			wantProps[p] = true
		}
	}
	var todo []*Contract
	for _, ti := range eng.typeInvs {
		res.Trusted = append(res.Trusted, "type invariant (assumed) "+ti.Global+"#"+ti.Cl.Name+": "+ti.Cl.Src)
	}
	for _, ct := range eng.contracts {
		key := ct.FuncKey
		if ct.Variant != "" {
			key += "/" + ct.Variant
		}
		if onlyRe != nil && !onlyRe.MatchString(key) {
			continue
		}
		if len(wantProps) > 0 && !contractServes(ct, wantProps) {
			continue
		}
		if ct.Trusted != "" {
			res.Trusted = append(res.Trusted, ct.FuncKey+": "+ct.Trusted)
			continue
		}
		todo = append(todo, ct)
	}
	eng.checkTableFacts()
	for _, tf := range eng.tableFacts {
		st := "failed"
		if tf.OK {
			st = "discharged"
		}
		if len(wantProps) > 0 {
			hit := false
			for _, p := range tf.Cl.Props {
				if wantProps[p] {
					hit = true
				}
			}
			if !hit {
				continue
			}
		}
		if onlyRe != nil && !onlyRe.MatchString("table/"+tf.Global) {
			continue
		}
		res.Tables = append(res.Tables, &OblResult{Name: "table/" + tf.Global + "/fact#" + tf.Cl.Name, Kind: "table", Props: tf.Cl.Props, Status: st, Instances: 1, Model: tf.Detail, Solvers: []string{"exhaustive-evaluation"}})
	}
	outs := make([]*FuncOut, len(todo))
	var wg sync.WaitGroup
	var engMu sync.Mutex // symbolic execution is single-threaded (shared type info caches); solving is parallel
	for i, ct := range todo {
		wg.Add(1)
		go func(i int, ct *Contract) {
			defer wg.Done()
			t1 := time.Now()
			engMu.Lock()
			fr := eng.verify(ct)
			engMu.Unlock()
			fo := &FuncOut{Func: ct.FuncKey, Variant: ct.Variant, Error: fr.Error, Paths: fr.Paths, Warnings: fr.Warnings, Props: ct.Props}
			if fr.Error == "" || len(fr.Obls) > 0 {
				// default props
				for _, o := range fr.Obls {
					if len(o.Props) == 0 {
						if o.Kind == "safe" || o.Kind == "conv" || o.Kind == "call" {
							if len(ct.SafeProps) > 0 {
								o.Props = ct.SafeProps
							} else {
								o.Props = ct.Props
							}
						} else {
							o.Props = ct.Props
						}
					}
				}
				if ct.Opts["safety"] == "off" {
					// partial correctness only: the clause obligations are proved for runs that do not panic; the safety
					// sites of this function are not claimed (reported as a warning in the evidence)
					kept := fr.Obls[:0]
					dropped := 0
					for _, o := range fr.Obls {
						if (o.Kind == "safe" || o.Kind == "conv") && !o.Canary {
							dropped++
							continue
						}
						kept = append(kept, o)
					}
					fr.Obls = kept
					fo.Warnings = append(fo.Warnings, fmt.Sprintf("opt safety off: %d safety obligations of this function are NOT checked under this contract (clauses hold for runs that do not panic)", dropped))
				}
				if dumpRe != nil {
					dumpVCs(fr, dumpRe, *scratch)
				}
				fo.Obls = sv.decide(fr)
			}
			fo.Time = time.Since(t1).Seconds()
			outs[i] = fo
		}(i, ct)
	}
	wg.Wait()
	res.Funcs = outs
	emit()
	bad := 0
	for _, fo := range outs {
		if fo.Error != "" {
			bad++
		}
		for _, o := range fo.Obls {
			if o.Status != "discharged" && o.Status != "canary-ok" {
				bad++
			}
		}
	}
	if bad > 0 {
		os.Exit(1)
	}
}

func contractServes(ct *Contract, want map[string]bool) bool {
	check := func(ps []string) bool {
		for _, p := range ps {
			if want[p] {
				return true
			}
		}
		return false
	}
	if check(ct.Props) || check(ct.SafeProps) {
		return true
	}
	for _, c := range ct.Ensures {
		if check(c.Props) {
			return true
		}
	}
	for _, cs := range ct.Invariants {
		for _, c := range cs {
			if check(c.Props) {
				return true
			}
		}
	}
	for _, a := range ct.AssertAfter {
		if check(a.Cl.Props) {
			return true
		}
	}
	for _, cs := range ct.Decreases {
		for _, c := range cs {
			if check(c.Props) {
				return true
			}
		}
	}
	return false
}

func dumpVCs(fr *FuncResult, re *regexp.Regexp, dir string) {
	var ax []axiomInfo
	for _, a := range fr.Axioms {
		m := map[string]bool{}
		symsOf(a.S, m)
		var ss []string
		for s := range m {
			ss = append(ss, s)
		}
		sort.Strings(ss)
		ax = append(ax, axiomInfo{t: a, syms: ss})
	}
	n := 0
	for _, o := range fr.Obls {
		if re.MatchString(o.Name) {
			n++
			name := fmt.Sprintf("%s/dump_%s_%d.smt2", dir, sanitize(fr.Func+"_"+o.Name), n)
			os.WriteFile(name, []byte(vcText(fr, ax, o, true)), 0o644)
			fmt.Fprintln(os.Stderr, "dumped", name)
		}
	}
}
