"""Engine adapter: frame (path / frame / global-access obligations over go/ssa)."""
import json, os, subprocess

def run(prop, tier, seed, here, repo, env, scratch):
    binp = os.path.join(here, "bin", "frame")
    src = os.path.join(here, "frame")
    newest = max(os.path.getmtime(os.path.join(src, f)) for f in os.listdir(src))
    if not os.path.exists(binp) or os.path.getmtime(binp) < newest:
        r = subprocess.run(["go", "build", "-o", binp, "."], cwd=src, env=env, capture_output=True, text=True)
        if r.returncode != 0:
            return {"errors": ["cannot build frame: " + r.stderr[-1000:]], "obligations": [], "functions": []}
    out = os.path.join(scratch, "frame.json")
    subprocess.run([binp, "-repo", repo, "-out", out], env=env, capture_output=True, text=True)
    try:
        res = json.load(open(out))
    except Exception as e:
        return {"errors": ["frame produced no output: %r" % e], "obligations": [], "functions": []}
    obls, funcs = [], set()
    for o in res.get("obligations") or []:
        if prop not in o.get("props", []):
            continue
        funcs.add(o["func"])
        obls.append({"id": o["id"], "status": o["status"], "engine": "frame", "solvers": ["frame-graph-search"], "time": 0,
                     "model": o.get("detail", ""), "pos": "", "kind": "frame", "instances": 1, "vc_bytes": 0, "weak": False, "func": o["func"]})
    return {"errors": res.get("errors") or [], "obligations": obls, "functions": sorted(funcs),
            "assumptions": ["frame: go/ssa CFGs; sync.WaitGroup / sync.Once / sync.Pool / channel semantics of the Go runtime; codecs' Reset restores a fresh state"]}
