"""Bounded stand-ins (labelled bounded, never counted as proved): small in-package tests injected with -overlay."""
import json, os, re, subprocess

TESTS = {"C02": ("c04_strings_test.go.txt", "TestVerifBoundedC04", "string values and keys exposed by the iterators equal the reference decoding (the C04 stand-in: the copying string kernel has no discharged contract)"),
         "C01": ("c01_accept_test.go.txt", "TestVerifBoundedC01", "Parse accepts <=> encoding/json.Valid with an object/array root and finite numbers: every byte string over a 13-symbol alphabet (brackets, separators, quote, digits, minus, letters, space) up to length 5 (quick) / 6 (thorough), plus 60 valid and near-miss fragments in 10 wrappers at 15 paddings around the 64-byte block and 8K thresholds"),
         "C04": ("c04_strings_test.go.txt", "TestVerifBoundedC04", "string kernels and their Go glue through Parse (copy and in-place mode) vs a reference decoder: all bodies over a 9-symbol alphabet (letters, backslash, quote, u, n, hex digits, a control byte) up to length 4 (quick) / 5 (thorough) plus selected escapes and surrogate pairs, at 12 chunk offsets and 3 distances from the end of the input"),
         "C08": ("c08_ndjson_test.go.txt", "TestVerifBoundedC08", "ParseND succeeds <=> every non-blank line parses, and exposes those documents in order: all sequences of 1-2 (and a sample of 3) lines from a pool of 20 valid / invalid lines, 4 separators (LF, CRLF, blank lines), 3 endings, 5 paddings across 64-byte blocks"),
         "C11": ("c11_roundtrip_test.go.txt", "TestVerifBoundedC11", "Deserialize(Serialize(t)) exposes the same typed values, float flags, strings and nesting as t: 10 structured + 400 (quick) / 4000 (thorough) seeded-random documents and 20 ndjson inputs, each also after SetNull and DeleteElems, x 4 compression modes, deserialized by a reused Serializer in another mode into a reused destination and by a fresh Serializer"),
         "C12": ("c12_elements_test.go.txt", "TestVerifBoundedC12", "Object.Parse / Elements.Lookup vs FindKey on 3000 (quick) / 30000 (thorough) generated objects, parsed into a fresh and into a reused *Elements: members in document order, every key looked up finds the member plain traversal finds, no key of the previous object survives in a reused Index"),
         "C16": ("c04_strings_test.go.txt", "TestVerifBoundedC04", "with string copying on, every string read back is unchanged after the caller's input buffer has been overwritten (same generated strings as the C04 stand-in; the copy decision sits in unsafe-pointer glue outside the verifier's reach)"),
         "C17": ("c11_roundtrip_test.go.txt", "TestVerifBoundedC11", "Deserialize side of C17: every structural word (roots, container starts/ends, NOP skips) of the deserialized tape equals the original's (same generated tapes as the C11 stand-in)"),
         "C18": ("c18_float_test.go.txt", "TestVerifBoundedC18", "appendFloat vs encoding/json on powers of ten +-2ulp, every binade x 4 mantissas, 2000 smallest subnormals, seeded random bit patterns")}

def run(prop, tier, seed, here, repo, env, scratch):
    if prop not in TESTS:
        return {"obligations": [], "functions": [], "errors": []}
    fname, tname, what = TESTS[prop]
    d = os.path.join(scratch, "bounded")
    os.makedirs(d, exist_ok=True)
    tf = os.path.join(d, "zz_verif_bounded_test.go")
    open(tf, "w").write(open(os.path.join(here, "bounded", fname)).read())
    ov = os.path.join(d, "ov.json")
    json.dump({"Replace": {os.path.join(repo, "zz_verif_bounded_test.go"): tf}}, open(ov, "w"))
    e = dict(env, VERIF_SEED=str(seed), VERIF_N=str(200000 if tier == "quick" else 5000000))
    r = subprocess.run(["bash", "-c", "cd %s && go test -tags verif -overlay %s -vet=off -timeout %s -count=1 -run '^%s$' -v ." % (repo, ov, "1200s" if tier == "quick" else "5400s", tname)],
                       env=e, capture_output=True, text=True)
    out = r.stdout + r.stderr
    m = re.search(r"BOUNDED-CASES (\d+)", out)
    cases = int(m.group(1)) if m else 0
    mism = re.findall(r"BOUNDED-MISMATCH (.*)", out)
    obl = {"id": "bounded/%s/%s" % (prop, tname), "status": "discharged" if (not mism and cases > 0) else "failed", "engine": "bounded",
           "solvers": ["go-test"], "time": 0, "model": "\n".join(mism[:10]) or out[-800:] if (mism or cases == 0) else "", "pos": "", "kind": "bounded",
           "instances": cases, "vc_bytes": 0, "weak": False, "func": tname, "bounded": True,
           "raw": "\n".join("BOUNDED-MISMATCH " + x for x in mism[:20]), "rerun": "go test -tags verif -run '^%s$' with /verif/bounded/%s copied into the package" % (tname, fname)}
    return {"obligations": [obl], "functions": [], "errors": [],
            "bounded": [{"what": what, "bound": "seed %d" % seed, "cases": cases, "mismatches": len(mism)}]}
