"""Property runner: runs engine steps, classifies obligations, writes evidence."""
import json, os, sys, subprocess, time, tempfile, shutil, re

def load_json(path, default):
    try:
        with open(path) as f:
            return json.load(f)
    except FileNotFoundError:
        return default

STATIC_TRUSTED = [
    "govc VC generator (go/ssa symbolic executor, /verif/govc) and its memory model",
    "go/ssa construction (golang.org/x/tools v0.29.0) and go/types",
    "SMT solvers z3 5.1.0 (z3-new), cvc5 1.0.x, z3 4.8.12",
    "specification functions and contracts in /repo/verif_contracts.go (reviewable oracle)",
]

def run_govc(prop, tier, here, repo, env, binp, scratch, extra_props=None):
    out = os.path.join(scratch, "govc.json")
    timeout = "10" if tier == "quick" else "60"
    props = [prop] + (extra_props or [])
    cmd = [binp, "-repo", repo, "-props", ",".join(props), "-timeout", timeout, "-out", out, "-scratch", os.path.join(scratch, "smt"),
           "-replaydir", os.path.join(scratch, "replaytests")]
    t0 = time.time()
    r = subprocess.run(cmd, env=env, capture_output=True, text=True)
    res = load_json(out, {"error": "govc produced no output: " + (r.stderr or r.stdout)[-2000:]})
    # second chance for obligations the solvers did not decide in time (machine load, slow queries): the functions
    # concerned are re-verified alone with a longer timeout; a verdict is only reported from the final attempt
    undec = ("undecided", "canary-undecided", "unknown", "timeout")
    retry = []
    for f in res.get("funcs") or []:
        if any(o["status"] in undec and (prop in (o.get("props") or [])) for o in f.get("obligations") or []):
            retry.append(f["func"] + ("/" + f["variant"] if f.get("variant") else ""))
    attempt = 0
    res["retried"] = []
    while retry and attempt < 2:
        attempt += 1
        out2 = os.path.join(scratch, "govc_retry%d.json" % attempt)
        rx = "^(" + "|".join(re.escape(k) for k in retry) + ")$"
        tmo = {("quick", 1): "40", ("quick", 2): "240", ("thorough", 1): "120", ("thorough", 2): "600"}[(tier if tier in ("quick", "thorough") else "quick", attempt)]
        cmd2 = [binp, "-repo", repo, "-only", rx, "-timeout", tmo, "-out", out2, "-j", "16" if attempt == 1 else "6",
                "-scratch", os.path.join(scratch, "smt%d" % (attempt + 1)), "-replaydir", os.path.join(scratch, "replaytests")]
        subprocess.run(cmd2, env=env, capture_output=True, text=True)
        res2 = load_json(out2, {})
        byk = {f["func"] + ("/" + f["variant"] if f.get("variant") else ""): f for f in res2.get("funcs") or []}
        funcs = []
        for f in res.get("funcs") or []:
            k = f["func"] + ("/" + f["variant"] if f.get("variant") else "")
            funcs.append(byk.get(k, f))
        res["funcs"] = funcs
        res["retried"] += retry
        retry = []
        for f in res.get("funcs") or []:
            if any(o["status"] in undec and (prop in (o.get("props") or [])) for o in f.get("obligations") or []):
                retry.append(f["func"] + ("/" + f["variant"] if f.get("variant") else ""))
    res["wall_s"] = time.time() - t0
    return res

def run(prop, tier, seed, replay, here, repo, env, ensure_built):
    t0 = time.time()
    sys.path.insert(0, os.path.join(here, "lib"))
    import propcfg
    cfg = propcfg.PROPS.get(prop)
    if cfg is None:
        print("property %s is not claimed (see MANIFEST not_applicable)" % prop)
        return 2
    binp = ensure_built()
    scratch = tempfile.mkdtemp(prefix="verif.", dir=os.environ.get("VERIF_SCRATCH", "/var/tmp"))
    if replay:
        import replay_go
        try:
            return replay_go.rerun(replay, here, repo, env, scratch)
        finally:
            shutil.rmtree(scratch, ignore_errors=True)
    try:
        return _run(prop, tier, seed, replay, here, repo, env, binp, scratch, cfg, t0)
    finally:
        shutil.rmtree(scratch, ignore_errors=True)

def _run(prop, tier, seed, replay, here, repo, env, binp, scratch, cfg, t0):
    known = load_json(os.path.join(here, "known_findings.json"), {"findings": []})
    lock = load_json(os.path.join(here, "obligations.lock"), {})
    residual = load_json(os.path.join(here, "residuals.json"), {})
    obls = []       # dicts: id, status, engine, solvers, time, model, pos, kind
    engine_errors = []
    functions = []
    warnings = set()
    bounded = []
    by_backend = {}
    solver_time = 0.0

    # engines run concurrently (they are separate processes)
    import threading
    eng_results = {}
    def _run_other(eng):
        mod = __import__("eng_" + eng)
        eng_results[eng] = mod.run(prop, tier, seed, here, repo, env, scratch)
    threads = []
    for eng in cfg["engines"]:
        if eng != "govc":
            th = threading.Thread(target=_run_other, args=(eng,))
            th.start()
            threads.append(th)
    if "govc" in cfg["engines"]:
        res = run_govc(prop, tier, here, repo, env, binp, scratch)
        if res.get("error"):
            engine_errors.append("govc: " + res["error"])
        for f in res.get("funcs") or []:
            key = f["func"] + ("/" + f["variant"] if f.get("variant") else "")
            functions.append(key)
            if f.get("error"):
                engine_errors.append("govc %s: %s" % (key, f["error"].split("\n")[0][:500]))
            for w in f.get("warnings") or []:
                warnings.add("%s: %s" % (key, w))
            for o in f.get("obligations") or []:
                if prop not in (o.get("props") or []):
                    continue
                oid = "govc/%s/%s" % (key, o["name"])
                obls.append({"id": oid, "status": o["status"], "engine": "govc", "solvers": o.get("solvers") or [],
                             "time": o.get("time_s", 0), "model": o.get("model", ""), "pos": o.get("pos", ""),
                             "kind": o["kind"], "instances": o["instances"], "vc_bytes": o.get("vc_bytes", 0),
                             "weak": o.get("candidate_model_from_instantiation", False), "func": key,
                             "replay_test": o.get("replay_test", ""), "replay_note": o.get("replay_note", "")})
    if "govc" in cfg["engines"]:
        for t in res.get("table_facts") or []:
            if prop in (t.get("props") or []):
                obls.append({"id": "govc/" + t["name"], "status": t["status"], "engine": "govc", "solvers": t.get("solvers") or [], "time": 0,
                             "model": t.get("model", ""), "pos": "", "kind": "table", "instances": 1, "vc_bytes": 0, "weak": False, "func": t["name"]})
    for th in threads:
        th.join()
    for eng in cfg["engines"]:
        if eng == "govc":
            continue
        r = eng_results.get(eng) or {"errors": ["engine %s did not return" % eng]}
        engine_errors += r.get("errors", [])
        obls += r.get("obligations", [])
        functions += r.get("functions", [])
        for w in r.get("assumptions", []):
            warnings.add(w)
        bounded += r.get("bounded", [])

    # classify
    kf_open = {}
    for k in known.get("findings", []):
        if k.get("status") == "open" and k.get("property") == prop:
            kf_open[k["obligation"]] = k
    resid = set(residual.get(prop, []))
    violations, knowns, discharged, total = [], [], 0, 0
    seen = set()
    for o in obls:
        seen.add(o["id"])
        if o["status"] in ("canary-ok",):
            continue
        if o["kind"] == "canary":
            # vacuity guard failed
            if o["id"] in resid:
                continue
            violations.append((o, "vacuity guard: %s" % o["status"]))
            continue
        if o["id"] in resid:
            continue
        if o.get("bounded"):
            if o["status"] != "discharged":
                violations.append((o, "bounded stand-in found a mismatch"))
            continue
        if o["status"] != "discharged" and o["id"] in kf_open:
            knowns.append((o, kf_open[o["id"]]))
            continue
        total += 1
        for s in o["solvers"]:
            by_backend[s] = by_backend.get(s, 0) + 1
        if not o["solvers"] and o["status"] == "discharged":
            by_backend["simplifier"] = by_backend.get("simplifier", 0) + 1
        solver_time += o.get("time", 0)
        if o["status"] == "discharged":
            discharged += 1
            continue
        violations.append((o, o["status"]))
    # locked clause obligations must still exist
    for oid in lock.get(prop, []):
        if oid not in seen and oid not in resid:
            violations.append(({"id": oid, "status": "missing", "model": "", "pos": "", "kind": "missing", "engine": "lock"},
                               "locked obligation no longer generated (contract or engine error)"))
    for e in engine_errors:
        violations.append(({"id": "engine", "status": "error", "model": e, "pos": "", "kind": "engine", "engine": "engine"}, e))

    rc = 0
    os.makedirs(os.path.join(here, "replays"), exist_ok=True)
    for o, kf in knowns:
        print("KNOWN-FINDING: property=%s %s — %s" % (prop, o["id"], kf.get("what", "")))
    import replaygen
    nviol = 0
    for o, why in violations:
        nviol += 1
        rp = os.path.join(here, "replays", "%s_%s.json" % (prop, re.sub(r"[^A-Za-z0-9_.-]+", "_", o["id"])[:150]))
        confirmed = replaygen.make_replay(rp, prop, o, why, here, repo, env, scratch)
        tail = "" if confirmed else " no-failing-input-found"
        print("VIOLATION property=%s replay=%s obligation=%s (%s)%s" % (prop, rp, o["id"], why, tail))
        rc = 1

    samples = []
    for o in obls[:400]:
        if o["kind"] == "canary":
            continue
        samples.append({"obligation": o["id"], "status": o["status"], "backend": o["solvers"], "time_s": round(o.get("time", 0), 3),
                        "vc_bytes": o.get("vc_bytes", 0), "instances": o.get("instances", 1)})
    ev = {
        "property_id": prop, "tier": tier, "seed": seed, "level": cfg.get("level", "proof"),
        "coverage": {
            "obligations": total, "discharged": discharged,
            "checker_cmd": "./check %s --tier %s" % (prop, tier),
            "trusted_base": STATIC_TRUSTED + cfg.get("trusted", []),
            "functions_under_contract": sorted(set(functions)),
            "by_backend": by_backend, "solver_time_s": round(solver_time, 2),
            "known_findings_reported": [o["id"] for o, _ in knowns],
            "residual_unclaimed": sorted(resid),
            "bounded_standins": bounded,
            "not_covered": cfg.get("not_covered", ""),
            "samples": samples[:60],
            "explanation": cfg.get("explanation", ""),
        },
        "assumptions": sorted(warnings) + cfg.get("assumptions", []),
        "wall_s": round(time.time() - t0, 2),
        "violations": nviol,
    }
    # runs against a seeded change (seeded/run_all.py) write their evidence elsewhere: the files under evidence/ always
    # describe the tree in /repo
    evdir = os.environ.get("VERIF_EVIDENCE_DIR") or os.path.join(here, "evidence")
    os.makedirs(evdir, exist_ok=True)
    with open(os.path.join(evdir, prop + ".json"), "w") as f:
        json.dump(ev, f, indent=1)
    print("%s: %d/%d obligations discharged, %d known findings, %d violations, %.1fs" % (prop, discharged, total, len(knowns), nviol, time.time() - t0))
    return rc
