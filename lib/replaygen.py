"""Replay files: carry the failed obligation and solver output; confirmed replays are added by engine-specific code."""
import json, os

def make_replay(path, prop, o, why, here, repo, env, scratch):
    rec = {"property": prop, "obligation": o["id"], "status": o["status"], "reason": why, "pos": o.get("pos", ""),
           "engine": o.get("engine", ""), "solver_output": o.get("model", ""),
           "candidate_model_from_instantiation": o.get("weak", False), "confirmed_on_real_code": False}
    confirmed = False
    if o.get("bounded") and o.get("status") != "discharged" and "BOUNDED-MISMATCH" in (o.get("raw", "") or ""):
        # a bounded stand-in runs the real code: each mismatch line is a concrete failing input
        rec["failing_inputs"] = [l for l in o["raw"].splitlines() if "BOUNDED-MISMATCH" in l][:20]
        rec["replay_verdict"] = "the bounded run executed the real code on these inputs and observed the mismatch"
        rec["rerun"] = o.get("rerun", "")
        confirmed = True
    try:
        import replay_go
        confirmed = confirmed or replay_go.try_replay(rec, o, here, repo, env, scratch)
    except Exception as e:  # replay is best effort; the obligation failure stands on its own
        rec["replay_error"] = repr(e)
    rec["confirmed_on_real_code"] = bool(confirmed)
    with open(path, "w") as f:
        json.dump(rec, f, indent=1)
    return confirmed
