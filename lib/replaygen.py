"""Replay files: carry the failed obligation and solver output; confirmed replays are added by engine-specific code."""
import json, os

def make_replay(path, prop, o, why, here, repo, env, scratch):
    rec = {"property": prop, "obligation": o["id"], "status": o["status"], "reason": why, "pos": o.get("pos", ""),
           "engine": o.get("engine", ""), "solver_output": o.get("model", ""),
           "candidate_model_from_instantiation": o.get("weak", False), "confirmed_on_real_code": False}
    confirmed = False
    try:
        import replay_go
        confirmed = replay_go.try_replay(rec, o, here, repo, env, scratch)
    except Exception as e:  # replay is best effort; the obligation failure stands on its own
        rec["replay_error"] = repr(e)
    rec["confirmed_on_real_code"] = bool(confirmed)
    with open(path, "w") as f:
        json.dump(rec, f, indent=1)
    return confirmed
