"""Engine adapter: asmvc (amd64 kernels as assembled from the current tree, against the S5 spec functions)."""
import json, os, subprocess

def run(prop, tier, seed, here, repo, env, scratch):
    out = os.path.join(scratch, "asmvc.json")
    timeout = "60" if tier == "quick" else "180"
    cmd = ["python3-vt", os.path.join(here, "asmvc", "main.py"), "--repo", repo, "--out", out, "--timeout", timeout, "--prop", prop,
           "--scratch", os.path.join(scratch, "asm")]
    os.makedirs(os.path.join(scratch, "asm"), exist_ok=True)
    resid = {}
    try:
        resid = json.load(open(os.path.join(here, "residuals.json")))
    except Exception:
        pass
    allres = sorted({x for k, v in resid.items() if isinstance(v, list) for x in v if x.startswith("asmvc/")})
    if allres and not os.environ.get("VERIF_RESIDUALS"):
        # residual obligations are claimed for no property: they are only attempted when VERIF_RESIDUALS=1 is set
        # (each needs minutes of solver time and none has been seen to discharge)
        sk = os.path.join(scratch, "asm_skip.json")
        json.dump(allres, open(sk, "w"))
        cmd += ["--skip", sk]
    r = subprocess.run(cmd, env=env, capture_output=True, text=True)
    try:
        res = json.load(open(out))
    except Exception:
        return {"errors": ["asmvc produced no output: " + (r.stderr or r.stdout)[-1500:]], "obligations": [], "functions": []}
    obls, funcs = [], set()
    for o in res.get("obligations", []):
        if prop not in o.get("props", []):
            continue
        funcs.add("asm " + o["kernel"])
        obls.append({"id": o["id"], "status": o["status"], "engine": "asmvc", "solvers": [o.get("backend", "z3")], "time": o.get("time_s", 0),
                     "model": o.get("model", ""), "pos": "", "kind": "asm", "instances": 1, "vc_bytes": 0, "weak": False, "func": o["kernel"]})
    return {"errors": res.get("errors", []), "obligations": obls, "functions": sorted(funcs),
            "assumptions": ["asmvc: objdump's decoding of the linked test binary; instruction semantics in /verif/asmvc/x86.py; ABI0 argument layout; enough stack (morestack path cut off)",
                            "asmvc: the induction from the per-iteration obligations (cut point loop_after_load) to whole-buffer statements is the standard cut-point argument, not mechanised"]}
