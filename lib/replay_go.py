def try_replay(rec, o, here, repo, env, scratch):
    return False
