"""Run a generated replay test (in-package, injected with -overlay) against the real code."""
import json, os, subprocess, re

def run_test_source(src, repo, env, scratch, tag="r"):
    os.makedirs(scratch, exist_ok=True)
    tf = os.path.join(scratch, "zz_verif_replay_%s_test.go" % tag)
    with open(tf, "w") as f:
        f.write(src)
    ov = os.path.join(scratch, "ov_%s.json" % tag)
    with open(ov, "w") as f:
        json.dump({"Replace": {os.path.join(repo, "zz_verif_replay_test.go"): tf}}, f)
    cmd = "ulimit -v 8000000; cd %s && go test -tags verif -overlay %s -vet=off -timeout 60s -count=1 -run '^TestVerifReplay$' -v ." % (repo, ov)
    r = subprocess.run(["bash", "-c", cmd], env=env, capture_output=True, text=True)
    return r.stdout + r.stderr

def verdict(out, kind):
    pre = re.search(r"REPLAY-PRE (true|false)", out)
    if not pre:
        return False, "replay did not run: " + out[-400:]
    if pre.group(1) == "false":
        return False, "model does not satisfy the compiled precondition (inconclusive)"
    if "REPLAY-PANIC:" in out:
        m = re.search(r"REPLAY-PANIC: (.*)", out)
        return True, "real code panics: " + m.group(1)
    if "panic:" in out and "goroutine" in out:
        return True, "real code crashes: " + out[out.index("panic:"):][:200]
    post = re.search(r"REPLAY-POST (true|false)", out)
    if post:
        if post.group(1) == "false":
            return True, "real code returns a state that violates the compiled postcondition"
        return False, "postcondition holds on the real code for this model (inconclusive)"
    if "REPLAY-RETURNED" in out:
        return False, "real code returned normally (no panic) for this model (inconclusive)"
    return False, "replay output not understood: " + out[-300:]

def try_replay(rec, o, here, repo, env, scratch):
    path = o.get("replay_test")
    if not path or not os.path.exists(path):
        if o.get("replay_note"):
            rec["replay_note"] = o["replay_note"]
        return False
    src = open(path).read()
    rec["replay_test_source"] = src
    out = run_test_source(src, repo, env, os.path.join(scratch, "replay"), tag=str(abs(hash(o["id"])) % 100000))
    ok, why = verdict(out, o.get("kind", ""))
    rec["replay_output"] = out[-2000:]
    rec["replay_verdict"] = why
    return ok

def rerun(path, here, repo, env, scratch):
    rec = json.load(open(path))
    src = rec.get("replay_test_source")
    if not src:
        print("replay file carries no executable test: obligation %s, solver output attached" % rec.get("obligation"))
        return 1
    out = run_test_source(src, repo, env, os.path.join(scratch, "replay"))
    ok, why = verdict(out, "")
    print(out[-1500:])
    print("REPLAY %s: %s" % ("CONFIRMED" if ok else "NOT-CONFIRMED", why))
    return 1 if ok else 0
