"""Which engines decide which property, with the notes that go into the evidence."""

COMMON_ASSUME = [
    "slices have fewer than 2^47 elements; an Iter is not used again after AdvanceIter returned an error",
    "A-append: nothing observes, through an older slice header, elements a later append wrote beyond that header's length (append is modelled with copy semantics)",
    "callbacks (fn arguments) do not modify the tape or string buffer",
    "objects reached through pointer fields that a loop overwrites are treated as distinct from other named objects after the loop's havoc",
]

PROPS = {
    "C06": {"engines": ["asmvc"], "level": "proof",
            "not_covered": "stage 2 is kernel-independent Go code (same input stream gives the same tape): argued, not a separate obligation; the Go selection between the two families passes identical arguments (inspected in findStructuralIndices contract when listed)",
            "assumptions": []},
    "C02": {"engines": ["govc"], "level": "proof",
            "not_covered": "producer side (stage 2 emitting the tape) and Interface()/Map() interface values; composition of per-step contracts into 'the whole document' is a prose induction (DESIGN 5/C02)",
            "assumptions": COMMON_ASSUME},
    "C03": {"engines": ["govc"], "level": "proof",
            "not_covered": "correct rounding is inherited from strconv.ParseFloat (assumed); only the typed accessors and flag plumbing are proved here unless parseNumber obligations are listed in functions_under_contract",
            "assumptions": COMMON_ASSUME},
    "C05": {"engines": ["govc", "asmvc"], "level": "proof",
            "not_covered": "stack exhaustion through recursive readers; liveness of ParseNDStream; Interface()/Map() recursion",
            "assumptions": COMMON_ASSUME},
    "C12": {"engines": ["govc"], "level": "proof",
            "not_covered": "Elements.Index with duplicate keys (Go map semantics uninterpreted); 'every admitted member is called back' (only 'no rejected member is called back' is proved)",
            "assumptions": COMMON_ASSUME},
    "C13": {"engines": ["govc"], "level": "proof",
            "not_covered": "sequences of operations are covered by induction over single operations (each ensures the positioned-iterator invariant the next requires): prose",
            "assumptions": COMMON_ASSUME},
    "C14": {"engines": ["govc"], "level": "proof",
            "not_covered": "composition of per-step obligations into the whole-document statement is a prose induction (DESIGN 5/C14); DeleteElems is proved for tapes in which every word, read as an entry, has its extent inside the window (restriction R1)",
            "assumptions": COMMON_ASSUME},
    "C19": {"engines": ["govc"], "level": "proof",
            "not_covered": "panics inside the S2/zstd codecs; goroutines started by decBlock are not interleaved (E4 covers the join discipline)",
            "assumptions": COMMON_ASSUME + ["declared section sizes are at most 2^31 (the property's allocation caveat), stated as an assumption on binary.ReadUvarint results"]},
}
