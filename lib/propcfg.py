"""Which engines decide which property, with the notes that go into the evidence."""
PROPS = {
    "C14": {"engines": ["govc"], "level": "proof",
            "not_covered": "composition of per-step obligations into the whole-document statement is a prose induction (DESIGN 5/C14)"},
}
