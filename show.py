import json,sys
r=json.load(open(sys.argv[1]))
if r.get('error'): print('ERROR',r['error'])
for f in r['funcs'] or []:
    print(f['func'],f.get('variant',''),'ERR:' if f.get('error') else '',(f.get('error') or '').split('\n')[0][:300],'paths',f['paths'],'t',round(f['time_s'],1))
    for w in f.get('warnings') or []: print('  W',w)
    for o in f['obligations'] or []:
        if len(sys.argv)>2 and sys.argv[2]=='bad' and o['status'] in('discharged','canary-ok'): continue
        print('  ',o['status'],o['name'],'n=%d'%o['instances'],o.get('solvers'),round(o['time_s'],2),o.get('pos'),o.get('props'))
