import json,re,sys
r=json.load(open(sys.argv[1]))
for f in r['funcs']:
    key=f['func']+'/'+f.get('variant','')
    if sys.argv[2] not in key: continue
    for o in f['obligations']:
        if o['status'] in('failed','undecided') and (len(sys.argv)<4 or sys.argv[3] in o['name']):
            print(key,o['name'], 'path',o.get('fail_path'))
            m=o.get('model','')
            for mm in re.finditer(r'\(define-fun (\S+) \(\) (\([^)]*\)|Bool)\s+(\S+)\)',m):
                v=mm.group(3)
                if v.startswith('#b'): v=hex(int(v[2:],2))
                print('  ',mm.group(1),v)
            for mm in re.finditer(r'\(define-fun (\S+) \(\) \(Array[^\n]*\n?[^\n]*',m):
                print('  ARR',mm.group(0)[:300])
