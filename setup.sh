#!/bin/sh
# Build the verification framework offline from files on disk.
set -e
cd "$(dirname "$0")"
export GOFLAGS=-mod=mod GOPROXY=off GOSUMDB=off GOTOOLCHAIN=local
mkdir -p bin evidence replays
if [ -d govc ]; then (cd govc && go build -o ../bin/govc .); fi
if [ -d frame ]; then (cd frame && go build -o ../bin/frame .); fi
echo setup-ok
