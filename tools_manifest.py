#!/usr/bin/env python3
"""Refresh MANIFEST.hooks.source_commits from /repo's history of the contract file and validate the manifest."""
import json, subprocess, os
here = os.path.dirname(os.path.abspath(__file__))
m = json.load(open(os.path.join(here, "MANIFEST.json")))
cs = subprocess.check_output(["git", "-C", "/repo", "log", "--format=%H", "--", "verif_contracts.go"]).decode().split()
m["hooks"]["source_commits"] = list(reversed(cs))
json.dump(m, open(os.path.join(here, "MANIFEST.json"), "w"), indent=1)
try:
    import jsonschema
    jsonschema.validate(m, json.load(open("/root/.vp/MANIFEST.schema.json")))
    print("manifest valid;", len(m["checks"]), "checks;", len(m.get("not_applicable", [])), "not applicable")
except ImportError:
    print("jsonschema not available; manifest written")
