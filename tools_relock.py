#!/usr/bin/env python3
"""Regenerate obligations.lock from a full govc run on the current tree: contract-clause
obligations (ensures / invariant / decreases / call / callreq) that discharge are locked;
safety-site obligations are named after source text and may come and go with the code."""
import json, subprocess, sys, os, tempfile
here = os.path.dirname(os.path.abspath(__file__))
sys.path.insert(0, os.path.join(here, "lib"))
import propcfg
env = dict(os.environ, GOFLAGS="-mod=mod", GOPROXY="off", GOSUMDB="off", GOTOOLCHAIN="local")
out = tempfile.mktemp(suffix=".json")
subprocess.run([os.path.join(here, "bin", "govc"), "-out", out, "-timeout", "20"], env=env)
r = json.load(open(out))
lock = {p: [] for p in propcfg.PROPS}
for f in r["funcs"]:
    key = f["func"] + ("/" + f["variant"] if f.get("variant") else "")
    for o in f.get("obligations") or []:
        if o["status"] != "discharged" or o["kind"] in ("safe", "conv", "canary"):
            continue
        for p in o.get("props") or []:
            if p in lock:
                # obligations of an inlined callee carry the callee contract's properties; they are only generated in a
                # run for property p if the enclosing function's own contract serves p
                if ">" in o["name"] and p not in (f.get("props") or []):
                    continue
                lock[p].append("govc/%s/%s" % (key, o["name"]))
aout = tempfile.mktemp(suffix=".json")
resid = {}
try:
    resid = json.load(open(os.path.join(here, "residuals.json")))
except Exception:
    pass
skipf = tempfile.mktemp(suffix=".json")
json.dump(sorted({x for k, v in resid.items() if isinstance(v, list) for x in v if x.startswith("asmvc/")}), open(skipf, "w"))
subprocess.run(["python3-vt", os.path.join(here, "asmvc", "main.py"), "--out", aout, "--skip", skipf, "--timeout", "30"], env=env)
try:
    for o in json.load(open(aout)).get("obligations", []):
        if o["status"] == "discharged":
            for p in o.get("props", []):
                if p in lock and "asmvc" in propcfg.PROPS[p]["engines"]:
                    lock[p].append(o["id"])
except Exception as e:
    print("asmvc lock skipped:", e)
fout = tempfile.mktemp(suffix=".json")
subprocess.run([os.path.join(here, "bin", "frame"), "-out", fout], env=env)
try:
    for o in json.load(open(fout)).get("obligations", []):
        if o["status"] == "discharged":
            for p in o.get("props", []):
                if p in lock and "frame" in propcfg.PROPS[p]["engines"]:
                    lock[p].append(o["id"])
except Exception as e:
    print("frame lock skipped:", e)
extra = os.path.join(here, "obligations.extra.json")
if os.path.exists(extra):
    for p, l in json.load(open(extra)).items():
        lock.setdefault(p, []).extend(l)
for p in lock:
    lock[p] = sorted(set(lock[p]))
json.dump(lock, open(os.path.join(here, "obligations.lock"), "w"), indent=1)
print({p: len(v) for p, v in lock.items()})
