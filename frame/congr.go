package main

// E3: congruence of the private Ryu copy with $GOROOT/src/strconv (C18, C10): for every function of the
// repository's ftoaryu.go (and fmtF) the AST is compared, token for token after dropping comments, with the
// standard library's function specialised to float64 (flt.mantbits=52, flt.expbits=11, flt.bias=-1023,
// flt == &float32info is false, the flt parameter dropped). Sound and incomplete: identical text => same function.

import (
	"bytes"
	"fmt"
	"go/ast"
	"go/format"
	"go/parser"
	"go/token"
	"os"
	"os/exec"
	"path/filepath"
	"strings"
)

func parseFuncs(fset *token.FileSet, path string) (map[string]*ast.FuncDecl, map[string]*ast.ValueSpec, error) {
	f, err := parser.ParseFile(fset, path, nil, 0)
	if err != nil {
		return nil, nil, err
	}
	fs := map[string]*ast.FuncDecl{}
	vs := map[string]*ast.ValueSpec{}
	for _, d := range f.Decls {
		switch x := d.(type) {
		case *ast.FuncDecl:
			if x.Recv == nil {
				fs[x.Name.Name] = x
			}
		case *ast.GenDecl:
			for _, s := range x.Specs {
				if v, ok := s.(*ast.ValueSpec); ok {
					for _, n := range v.Names {
						vs[n.Name] = v
					}
				}
			}
		}
	}
	return fs, vs, nil
}

func lit(v string) ast.Expr { return &ast.BasicLit{Kind: token.INT, Value: v} }

// specialise rewrites a strconv function for flt = &float64info.
func specialise(fd *ast.FuncDecl) {
	// drop the flt parameter
	var ps []*ast.Field
	for _, p := range fd.Type.Params.List {
		keep := true
		for _, n := range p.Names {
			if n.Name == "flt" {
				keep = false
			}
		}
		if keep {
			ps = append(ps, p)
		}
	}
	fd.Type.Params.List = ps
	var rewriteStmts func(list []ast.Stmt) []ast.Stmt
	rewriteExpr := func(e ast.Expr) ast.Expr { return e }
	var walkExpr func(e ast.Expr) ast.Expr
	walkExpr = func(e ast.Expr) ast.Expr {
		switch x := e.(type) {
		case *ast.SelectorExpr:
			if id, ok := x.X.(*ast.Ident); ok && id.Name == "flt" {
				switch x.Sel.Name {
				case "mantbits":
					return &ast.Ident{Name: "mantbits"}
				case "expbits":
					return &ast.Ident{Name: "expbits"}
				case "bias":
					return &ast.Ident{Name: "bias"}
				}
			}
			x.X = walkExpr(x.X)
		case *ast.BinaryExpr:
			x.X, x.Y = walkExpr(x.X), walkExpr(x.Y)
		case *ast.UnaryExpr:
			x.X = walkExpr(x.X)
		case *ast.ParenExpr:
			x.X = walkExpr(x.X)
		case *ast.IndexExpr:
			x.X, x.Index = walkExpr(x.X), walkExpr(x.Index)
		case *ast.SliceExpr:
			x.X = walkExpr(x.X)
			if x.Low != nil {
				x.Low = walkExpr(x.Low)
			}
			if x.High != nil {
				x.High = walkExpr(x.High)
			}
		case *ast.CallExpr:
			var args []ast.Expr
			for _, a := range x.Args {
				if id, ok := a.(*ast.Ident); ok && id.Name == "flt" {
					continue
				}
				args = append(args, walkExpr(a))
			}
			x.Args = args
			x.Fun = walkExpr(x.Fun)
		case *ast.StarExpr:
			x.X = walkExpr(x.X)
		}
		return e
	}
	_ = rewriteExpr
	isFloat32Test := func(e ast.Expr) bool {
		b, ok := e.(*ast.BinaryExpr)
		if !ok || b.Op != token.EQL {
			return false
		}
		id, ok := b.X.(*ast.Ident)
		return ok && id.Name == "flt"
	}
	var walkStmt func(s ast.Stmt) []ast.Stmt
	walkStmt = func(s ast.Stmt) []ast.Stmt {
		switch x := s.(type) {
		case *ast.IfStmt:
			if isFloat32Test(x.Cond) {
				// condition is false for float64: keep the else branch
				if blk, ok := x.Else.(*ast.BlockStmt); ok {
					return rewriteStmts(blk.List)
				}
				return nil
			}
			x.Cond = walkExpr(x.Cond)
			x.Body.List = rewriteStmts(x.Body.List)
			if blk, ok := x.Else.(*ast.BlockStmt); ok {
				blk.List = rewriteStmts(blk.List)
			} else if x.Else != nil {
				r := walkStmt(x.Else)
				if len(r) == 1 {
					x.Else = r[0]
				}
			}
			if x.Init != nil {
				r := walkStmt(x.Init)
				if len(r) == 1 {
					x.Init = r[0]
				}
			}
		case *ast.AssignStmt:
			for i := range x.Rhs {
				x.Rhs[i] = walkExpr(x.Rhs[i])
			}
			for i := range x.Lhs {
				x.Lhs[i] = walkExpr(x.Lhs[i])
			}
		case *ast.ExprStmt:
			x.X = walkExpr(x.X)
		case *ast.ReturnStmt:
			for i := range x.Results {
				x.Results[i] = walkExpr(x.Results[i])
			}
		case *ast.ForStmt:
			if x.Cond != nil {
				x.Cond = walkExpr(x.Cond)
			}
			x.Body.List = rewriteStmts(x.Body.List)
		case *ast.BlockStmt:
			x.List = rewriteStmts(x.List)
		case *ast.DeclStmt:
			if gd, ok := x.Decl.(*ast.GenDecl); ok {
				for _, sp := range gd.Specs {
					if vs, ok := sp.(*ast.ValueSpec); ok {
						for i := range vs.Values {
							vs.Values[i] = walkExpr(vs.Values[i])
						}
					}
				}
			}
		case *ast.SwitchStmt:
			if x.Tag != nil {
				x.Tag = walkExpr(x.Tag)
			}
			x.Body.List = rewriteStmts(x.Body.List)
		case *ast.CaseClause:
			for i := range x.List {
				x.List[i] = walkExpr(x.List[i])
			}
			x.Body = rewriteStmts(x.Body)
		case *ast.IncDecStmt:
			x.X = walkExpr(x.X)
		}
		return []ast.Stmt{s}
	}
	rewriteStmts = func(list []ast.Stmt) []ast.Stmt {
		var out []ast.Stmt
		for _, s := range list {
			out = append(out, walkStmt(s)...)
		}
		return out
	}
	fd.Body.List = rewriteStmts(fd.Body.List)
}

// dropLocalConsts removes `const mantbits = 52` style declarations the repository's copy adds, after checking their values.
func dropLocalConsts(fd *ast.FuncDecl, want map[string]string) (bool, string) {
	var out []ast.Stmt
	for _, s := range fd.Body.List {
		if ds, ok := s.(*ast.DeclStmt); ok {
			if gd, ok := ds.Decl.(*ast.GenDecl); ok && gd.Tok == token.CONST {
				for _, sp := range gd.Specs {
					vs := sp.(*ast.ValueSpec)
					for i, n := range vs.Names {
						var buf bytes.Buffer
						format.Node(&buf, token.NewFileSet(), vs.Values[i])
						if w, ok := want[n.Name]; !ok || w != buf.String() {
							return false, fmt.Sprintf("local constant %s = %s (expected %s)", n.Name, buf.String(), w)
						}
					}
				}
				continue
			}
		}
		out = append(out, s)
	}
	fd.Body.List = out
	return true, ""
}

func render(fd *ast.FuncDecl) string {
	fd.Doc = nil
	var buf bytes.Buffer
	format.Node(&buf, token.NewFileSet(), fd)
	return buf.String()
}

func (e *Eng) congruence(repo string) {
	props := []string{"C18", "C10"}
	out, err := exec.Command("go", "env", "GOROOT").Output()
	if err != nil {
		e.add("congr#goroot", "ftoaryu.go", props, false, "go env GOROOT failed")
		return
	}
	goroot := strings.TrimSpace(string(out))
	fset := token.NewFileSet()
	rf, rv, err1 := parseFuncs(fset, filepath.Join(repo, "ftoaryu.go"))
	sf, sv, err2 := parseFuncs(fset, filepath.Join(goroot, "src", "strconv", "ftoaryu.go"))
	if err1 != nil || err2 != nil {
		e.add("congr#parse", "ftoaryu.go", props, false, fmt.Sprintf("%v %v", err1, err2))
		return
	}
	consts := map[string]string{"mantbits": "52", "expbits": "11", "bias": "-1023"}
	for name, fd := range rf {
		std := sf[name]
		if std == nil {
			e.add("congr#"+name, "ftoaryu.go", props, false, "no function of that name in strconv/ftoaryu.go")
			continue
		}
		specialise(std)
		ok, why := dropLocalConsts(fd, consts)
		if !ok {
			e.add("congr#"+name, "ftoaryu.go", props, false, why)
			continue
		}
		a, b := render(fd), render(std)
		if a == b {
			e.add("congr#"+name, "ftoaryu.go", props, true, "token-identical to strconv."+name+" specialised to float64")
		} else {
			// first differing line
			la, lb := strings.Split(a, "\n"), strings.Split(b, "\n")
			d := ""
			for i := 0; i < len(la) && i < len(lb); i++ {
				if la[i] != lb[i] {
					d = fmt.Sprintf("line %d: repo %q vs strconv %q", i+1, strings.TrimSpace(la[i]), strings.TrimSpace(lb[i]))
					break
				}
			}
			if d == "" {
				d = fmt.Sprintf("lengths differ (%d vs %d lines)", len(la), len(lb))
			}
			e.add("congr#"+name, "ftoaryu.go", props, false, d)
		}
	}
	// the power-of-ten table
	if sv["detailedPowersOfTen"] == nil {
		if _, ev, err := parseFuncs(fset, filepath.Join(goroot, "src", "strconv", "eisel_lemire.go")); err == nil {
			sv = ev
		}
	}
	if a, b := rv["detailedPowersOfTen"], sv["detailedPowersOfTen"]; a != nil && b != nil {
		var ba, bb bytes.Buffer
		format.Node(&ba, token.NewFileSet(), a.Values[0])
		format.Node(&bb, token.NewFileSet(), b.Values[0])
		e.add("congr#detailedPowersOfTen", "ftoaryu.go", props, ba.String() == bb.String(), fmt.Sprintf("%d bytes of table text compared", ba.Len()))
	} else {
		e.add("congr#detailedPowersOfTen", "ftoaryu.go", props, false, "table not found")
	}
	// fmtF
	af, _, err3 := parseFuncs(fset, filepath.Join(repo, "appendfloat_f.go"))
	tf, _, err4 := parseFuncs(fset, filepath.Join(goroot, "src", "strconv", "ftoa.go"))
	if err3 == nil && err4 == nil && af["fmtF"] != nil && tf["fmtF"] != nil {
		e.add("congr#fmtF", "appendfloat_f.go", props, render(af["fmtF"]) == render(tf["fmtF"]), "token comparison with strconv.fmtF")
	} else {
		e.add("congr#fmtF", "appendfloat_f.go", props, false, "fmtF not found")
	}
	_ = os.Stat
}
