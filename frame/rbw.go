package main

// Reads-before-writes of the fields of a reused object (C15): forward must-write dataflow over the CFG.
// A field (access path below the receiver) that can be loaded on some path before being stored on that
// path carries state from an earlier use of the object into this call.

import (
	"go/token"
	"fmt"
	"go/types"
	"sort"
	"strings"

	"golang.org/x/tools/go/ssa"
)

type rbwSummary struct {
	reads  map[string]string // path -> classification of the earliest read ("len/cap/nil-test only" or "value")
	writes map[string]bool   // must-written paths at every return
}

func fieldPath(v ssa.Value, recv ssa.Value) (string, bool) {
	var parts []string
	for {
		switch x := v.(type) {
		case *ssa.FieldAddr:
			st := x.X.Type().Underlying().(*types.Pointer).Elem().Underlying().(*types.Struct)
			parts = append([]string{st.Field(x.Field).Name()}, parts...)
			v = x.X
		case *ssa.UnOp:
			// p.F.G where F is a pointer field: the load of p.F
			if _, isFA := x.X.(*ssa.FieldAddr); isFA && x.Op == token.MUL && len(parts) > 0 {
				if _, isPtr := x.Type().Underlying().(*types.Pointer); isPtr {
					v = x.X
					continue
				}
			}
			if isRecvValue(v, recv) {
				return strings.Join(parts, "."), len(parts) > 0
			}
			return "", false
		default:
			if isRecvValue(v, recv) {
				return strings.Join(parts, "."), len(parts) > 0
			}
			return "", false
		}
	}
}

// isRecvValue: v is the receiver, or a load of the local cell the receiver was spilled to (captured by a closure)
func isRecvValue(v ssa.Value, recv ssa.Value) bool {
	if v == recv {
		return true
	}
	// `if dst == nil { dst = &T{} }`: a phi of the tracked object and fresh allocations is the tracked object
	if phi, ok := v.(*ssa.Phi); ok {
		sawRecv := false
		for _, e := range phi.Edges {
			if e == recv {
				sawRecv = true
				continue
			}
			if a, isA := e.(*ssa.Alloc); isA && a.Heap {
				continue
			}
			return false
		}
		return sawRecv
	}
	u, ok := v.(*ssa.UnOp)
	if !ok {
		return false
	}
	a, ok := u.X.(*ssa.Alloc)
	if !ok {
		return false
	}
	n := 0
	for _, r := range *a.Referrers() {
		if st, ok := r.(*ssa.Store); ok && st.Addr == ssa.Value(a) {
			if st.Val != recv {
				return false
			}
			n++
		}
	}
	return n == 1
}

func covered(written map[string]bool, p string) bool {
	for q := p; q != ""; {
		if written[q] {
			return true
		}
		i := strings.LastIndex(q, ".")
		if i < 0 {
			break
		}
		q = q[:i]
	}
	return false
}

func benignUse(u *ssa.UnOp) bool { return benignVal(u, 0) }

// derefOnly: a loaded pointer that is only dereferenced to reach its fields or compared with nil
func derefOnly(u *ssa.UnOp) bool {
	if _, isPtr := u.Type().Underlying().(*types.Pointer); !isPtr {
		return false
	}
	for _, r := range *u.Referrers() {
		switch x := r.(type) {
		case *ssa.FieldAddr, *ssa.DebugRef:
		case *ssa.BinOp:
			isNil := func(v ssa.Value) bool { c, ok := v.(*ssa.Const); return ok && c.Value == nil }
			if !(isNil(x.X) || isNil(x.Y)) {
				return false
			}
		default:
			return false
		}
	}
	return true
}

func benignVal(u ssa.Value, depth int) bool {
	if depth > 3 {
		return false
	}
	refs := u.Referrers()
	if refs == nil || len(*refs) == 0 {
		return true
	}
	for _, r := range *refs {
		switch x := r.(type) {
		case *ssa.Call:
			if b, ok := x.Call.Value.(*ssa.Builtin); ok {
				if b.Name() != "cap" && b.Name() != "len" {
					return false
				}
				continue
			}
			// handed to a function of this package that itself only uses the capacity (e.g. encBlock: buf[:0])
			cal := x.Call.StaticCallee()
			if cal == nil || len(cal.Blocks) == 0 || x.Parent().Pkg != cal.Pkg {
				return false
			}
			for k, a := range x.Call.Args {
				if a == u {
					if k >= len(cal.Params) || !benignVal(cal.Params[k], depth+1) {
						return false
					}
				}
			}
		case *ssa.BinOp:
			// comparison with nil
			isNil := func(v ssa.Value) bool { c, ok := v.(*ssa.Const); return ok && c.Value == nil }
			if !(isNil(x.X) || isNil(x.Y)) {
				return false
			}
		case *ssa.Slice:
			// x = x[:n] style re-slicing from index 0: only the capacity (and stale contents, which the caller must
			// overwrite before reading: see the detail text of the obligation) survive; the old LENGTH does not
			if !(x.Low == nil && x.High != nil) {
				return false
			}
		case *ssa.DebugRef:
		case *ssa.FieldAddr:
			// a field of the pointee: stores are writes; loads must themselves be benign
			for _, r2 := range *x.Referrers() {
				switch y := r2.(type) {
				case *ssa.Store:
					if y.Addr != ssa.Value(x) {
						return false
					}
				case *ssa.UnOp:
					if !benignVal(y, depth+1) {
						return false
					}
				default:
					return false
				}
			}
		default:
			return false
		}
	}
	return true
}

func (e *Eng) rbw(fn *ssa.Function, memo map[*ssa.Function]*rbwSummary, depth int) *rbwSummary {
	return e.rbwAt(fn, 0, map[rbwKey]*rbwSummary{}, depth)
}

type rbwKey struct {
	fn  *ssa.Function
	idx int
}

// rbwAt tracks the object passed as parameter idx.
func (e *Eng) rbwAt(fn *ssa.Function, idx int, memo map[rbwKey]*rbwSummary, depth int) *rbwSummary {
	if s, ok := memo[rbwKey{fn, idx}]; ok {
		return s
	}
	sum := &rbwSummary{reads: map[string]string{}, writes: map[string]bool{}}
	memo[rbwKey{fn, idx}] = sum
	if len(fn.Blocks) == 0 || len(fn.Params) <= idx || depth > 6 {
		return sum
	}
	recv := ssa.Value(fn.Params[idx])
	in := map[*ssa.BasicBlock]map[string]bool{}
	var retSets []map[string]bool
	work := []*ssa.BasicBlock{fn.Blocks[0]}
	in[fn.Blocks[0]] = map[string]bool{}
	visited := map[*ssa.BasicBlock]int{}
	for len(work) > 0 {
		b := work[0]
		work = work[1:]
		visited[b]++
		if visited[b] > 50 {
			continue
		}
		w := map[string]bool{}
		for k := range in[b] {
			w[k] = true
		}
		for _, ins := range b.Instrs {
			switch x := ins.(type) {
			case *ssa.Store:
				if p, ok := fieldPath(x.Addr, recv); ok {
					w[p] = true
				}
			case *ssa.UnOp:
				if p, ok := fieldPath(x.X, recv); ok && !covered(w, p) && !derefOnly(x) {
					cls := "value"
					if benignUse(x) {
						cls = "len/cap/nil-test or [:0] only"
					}
					if old, seen := sum.reads[p]; !seen || (old != "value" && cls == "value") {
						sum.reads[p] = cls
					}
				}
			case *ssa.Call:
				cal := x.Call.StaticCallee()
				argIdx := -1
				for k, a := range x.Call.Args {
					if isRecvValue(a, recv) {
						argIdx = k
						break
					}
				}
				if cal != nil && cal.Pkg == fn.Pkg && argIdx >= 0 && len(cal.Blocks) > 0 {
					cs := e.rbwAt(cal, argIdx, memo, depth+1)
					for p, cls := range cs.reads {
						if !covered(w, p) {
							if old, seen := sum.reads[p]; !seen || (old != "value" && cls == "value") {
								sum.reads[p] = cls + " (in " + funcKey(cal) + ")"
							}
						}
					}
					for p := range cs.writes {
						w[p] = true
					}
				}
				// the address of a field handed to a callee (e.g. &pj.ParsedJson to parseString): treated as read+written
				for _, a := range x.Call.Args[0:] {
					if p, ok := fieldPath(a, recv); ok && !covered(w, p) && cal != nil && cal.Pkg == fn.Pkg {
						_ = p
					}
				}
			case *ssa.Go:
				// fields assigned unconditionally (entry block) by a goroutine closure count as written from the go
				// statement on: the join before any read is a separate obligation (join#compressors / shared#...)
				if mc, isMC := x.Call.Value.(*ssa.MakeClosure); isMC {
					cl := mc.Fn.(*ssa.Function)
					for k, fv := range cl.FreeVars {
						al, isAl := mc.Bindings[k].(*ssa.Alloc)
						if !isAl {
							continue
						}
						// the cell holds the tracked object
						holds := false
						for _, r := range *al.Referrers() {
							if st, isSt := r.(*ssa.Store); isSt && st.Addr == ssa.Value(al) && isRecvValue(st.Val, recv) {
								holds = true
							}
						}
						if !holds || len(cl.Blocks) == 0 {
							continue
						}
						for _, ci := range cl.Blocks[0].Instrs {
							st, isSt := ci.(*ssa.Store)
							if !isSt {
								continue
							}
							// addr: FieldAddr chain over load(fv)
							var parts []string
							v := st.Addr
							for {
								fa, isFA := v.(*ssa.FieldAddr)
								if !isFA {
									break
								}
								stt := fa.X.Type().Underlying().(*types.Pointer).Elem().Underlying().(*types.Struct)
								parts = append([]string{stt.Field(fa.Field).Name()}, parts...)
								v = fa.X
							}
							if ld, isLd := v.(*ssa.UnOp); isLd && ld.X == ssa.Value(fv) && len(parts) > 0 {
								w[strings.Join(parts, ".")] = true
							}
						}
					}
				}
			case *ssa.Return:
				cp := map[string]bool{}
				for k := range w {
					cp[k] = true
				}
				retSets = append(retSets, cp)
			}
		}
		emptyOn := map[*ssa.BasicBlock]string{}
		if len(b.Instrs) > 0 {
			if iff, isIf := b.Instrs[len(b.Instrs)-1].(*ssa.If); isIf {
				if bin, isBin := iff.Cond.(*ssa.BinOp); isBin && (bin.Op == token.GTR || bin.Op == token.NEQ) {
					if c, isC := bin.Y.(*ssa.Const); isC && c.Value != nil && c.Int64() == 0 {
						if call, isCall := bin.X.(*ssa.Call); isCall {
							if bi, isB := call.Call.Value.(*ssa.Builtin); isB && bi.Name() == "len" {
								if ld, isLd := call.Call.Args[0].(*ssa.UnOp); isLd {
									if p, ok := fieldPath(ld.X, recv); ok {
										emptyOn[b.Succs[1]] = p
									}
								}
							}
						}
					}
				}
			}
		}
		for _, s := range b.Succs {
			if p, isE := emptyOn[s]; isE {
				// edge-specific fact: copy w with p added
				w2 := map[string]bool{}
				for k := range w {
					w2[k] = true
				}
				w2[p] = true
				old, ok := in[s]
				if !ok {
					in[s] = w2
					work = append(work, s)
					continue
				}
				changed := false
				for k := range old {
					if !w2[k] {
						delete(old, k)
						changed = true
					}
				}
				if changed {
					work = append(work, s)
				}
				continue
			}
			old, ok := in[s]
			if !ok {
				ns := map[string]bool{}
				for k := range w {
					ns[k] = true
				}
				in[s] = ns
				work = append(work, s)
				continue
			}
			changed := false
			for k := range old {
				if !w[k] {
					delete(old, k)
					changed = true
				}
			}
			if changed {
				work = append(work, s)
			}
		}
	}
	if len(retSets) > 0 {
		for k := range retSets[0] {
			all := true
			for _, r := range retSets[1:] {
				if !r[k] {
					all = false
				}
			}
			if all {
				sum.writes[k] = true
			}
		}
	}
	return sum
}

// reuseObligations: the state a reused parser object may carry into parseMessage.
func (e *Eng) reuseObligations() {
	pm := e.fn("(*internalParsedJson).parseMessage")
	if pm == nil {
		return
	}
	s := e.rbw(pm, nil, 0)
	// fields whose earlier VALUE may flow into this call. indexChans is expected: the channel object is reused and
	// must be empty (terminator/drain obligations); buffers are overwritten slot by slot before being sent.
	expected := map[string]string{
		"indexChans":  "reused channel: emptiness on entry is the C07/C15 drain invariant",
		"copyStrings": "set for every call by newInternalParsedJson (reuse#options-reset) resp. by the ParseNDStream worker (worker#copies-strings)",
	}
	var bad, benign []string
	var keys []string
	for p := range s.reads {
		keys = append(keys, p)
	}
	sort.Strings(keys)
	for _, p := range keys {
		cls := s.reads[p]
		switch {
		case strings.HasPrefix(cls, "len/cap"):
			benign = append(benign, p+" ["+cls+"]")
		case expected[p] != "":
			benign = append(benign, p+" ["+expected[p]+"]")
		default:
			bad = append(bad, p+" ["+cls+"]")
		}
	}
	e.add("reuse#reads-before-writes", funcKey(pm), []string{"C15", "C07"}, len(bad) == 0 && len(keys) > 0,
		fmt.Sprintf("value carried over: %s | benign: %s", strings.Join(bad, "; "), strings.Join(benign, "; ")))
	// newInternalParsedJson: a reused internal object gets the caller's ParsedJson and fresh options
	nip := e.fn("newInternalParsedJson")
	if nip != nil {
		setsCopy := false
		for _, b := range nip.Blocks {
			for _, in := range b.Instrs {
				if st, ok := in.(*ssa.Store); ok {
					if fa, ok := st.Addr.(*ssa.FieldAddr); ok {
						stt := fa.X.Type().Underlying().(*types.Pointer).Elem().Underlying().(*types.Struct)
						if stt.Field(fa.Field).Name() == "copyStrings" {
							if c, ok := st.Val.(*ssa.Const); ok && c.Value != nil && c.Value.String() == "true" {
								setsCopy = true
							}
						}
					}
				}
			}
		}
		// ... on EVERY path, before any option of this call is applied and before the object is returned
		isSet := func(in ssa.Instruction) bool {
			st, ok := in.(*ssa.Store)
			if !ok {
				return false
			}
			fa, ok := st.Addr.(*ssa.FieldAddr)
			if !ok {
				return false
			}
			stt := fa.X.Type().Underlying().(*types.Pointer).Elem().Underlying().(*types.Struct)
			c, isC := st.Val.(*ssa.Const)
			return stt.Field(fa.Field).Name() == "copyStrings" && isC && c.Value != nil && c.Value.String() == "true"
		}
		usesObj := func(in ssa.Instruction) bool {
			switch x := in.(type) {
			case *ssa.Call:
				return x.Call.StaticCallee() == nil && !x.Call.IsInvoke() // opt(pj)
			case *ssa.Return:
				if len(x.Results) > 0 {
					if c, isC := x.Results[0].(*ssa.Const); isC && c.IsNil() {
						return false
					}
					return true
				}
			}
			return false
		}
		detail := "copyStrings is reset to its default (true) on every path before the options of this call are applied"
		if setsCopy {
			if r, w := reachWithout(ipos{nip.Blocks[0], -1}, usesObj, isSet); r {
				setsCopy = false
				detail = "the options are applied / the parser object is returned at " + e.pos(w) + " on a path that did not reset copyStrings: a reused object keeps the previous call's mode"
			}
		}
		e.add("reuse#options-reset", funcKey(nip), []string{"C15", "C16"}, setsCopy, detail)
	}
}

// serializerReuse (C15, C11): which fields of a reused destination ParsedJson / Serializer can carry their earlier
// VALUE into Serialize / Deserialize.
func (e *Eng) serializerReuse() {
	type tgt struct {
		fn       string
		idx      int
		name     string
		expected map[string]string
	}
	modes := "configuration chosen by CompressMode (constructor/setter), not per-call state"
	for _, t := range []tgt{
		{"(*Serializer).Deserialize", 2, "reuse#dst-reads-before-writes", map[string]string{}},
		{"(*Serializer).Deserialize", 0, "reuse#serializer-reads-before-writes", map[string]string{}},
		{"(*Serializer).Serialize", 0, "reuse#serializer-reads-before-writes", map[string]string{
			"compValues": modes, "compTags": modes, "compStrings": modes, "fasterComp": modes, "maxBlockSize": modes}},
	} {
		fn := e.fn(t.fn)
		if fn == nil {
			e.add(t.name, t.fn, []string{"C15", "C11"}, false, "function not found")
			continue
		}
		sum := e.rbwAt(fn, t.idx, map[rbwKey]*rbwSummary{}, 0)
		var bad, benign, keys []string
		for p := range sum.reads {
			keys = append(keys, p)
		}
		sort.Strings(keys)
		for _, p := range keys {
			cls := sum.reads[p]
			switch {
			case strings.HasPrefix(cls, "len/cap"):
				benign = append(benign, p+" ["+cls+"]")
			case t.expected[p] != "":
				benign = append(benign, p+" ["+t.expected[p]+"]")
			default:
				bad = append(bad, p+" ["+cls+"]")
			}
		}
		e.add(t.name, funcKey(fn), []string{"C15", "C11"}, len(bad) == 0,
			fmt.Sprintf("value carried over: %s | benign: %s", strings.Join(bad, "; "), strings.Join(benign, "; ")))
	}
}

// initializeResets (C15): every buffer a reused parser object carries over is truncated or replaced on EVERY path
// through initialize (the later appends in stage 2 go through &pj.ParsedJson, which the reads-before-writes analysis of
// parseMessage does not follow).
func (e *Eng) initializeResets() {
	fn := e.fn("(*internalParsedJson).initialize")
	if fn == nil || len(fn.Params) == 0 {
		return
	}
	recv := ssa.Value(fn.Params[0])
	var missing []string
	for _, need := range [][]string{{"ParsedJson.Tape"}, {"ParsedJson.Strings", "ParsedJson.Strings.B"}, {"containingScopeOffset"}, {"indexesChan"}} {
		nd := need
		isSet := func(in ssa.Instruction) bool {
			st, ok := in.(*ssa.Store)
			if !ok {
				return false
			}
			p, ok := fieldPath(st.Addr, recv)
			if !ok {
				return false
			}
			for _, w := range nd {
				if p == w {
					return true
				}
			}
			return false
		}
		if r, _ := reachWithout(ipos{fn.Blocks[0], -1}, isReturn(), isSet); r {
			missing = append(missing, nd[len(nd)-1])
		}
	}
	detail := "Tape, Strings(.B), containingScopeOffset and indexesChan are assigned on every path through initialize"
	if len(missing) > 0 {
		detail = "a path through initialize leaves these carried over from the previous parse: " + strings.Join(missing, ", ")
	}
	e.add("reuse#initialize-resets-buffers", funcKey(fn), []string{"C15"}, len(missing) == 0, detail)
}
