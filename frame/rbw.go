package main

// Reads-before-writes of the fields of a reused object (C15): forward must-write dataflow over the CFG.
// A field (access path below the receiver) that can be loaded on some path before being stored on that
// path carries state from an earlier use of the object into this call.

import (
	"fmt"
	"go/types"
	"sort"
	"strings"

	"golang.org/x/tools/go/ssa"
)

type rbwSummary struct {
	reads  map[string]string // path -> classification of the earliest read ("len/cap/nil-test only" or "value")
	writes map[string]bool   // must-written paths at every return
}

func fieldPath(v ssa.Value, recv ssa.Value) (string, bool) {
	var parts []string
	for {
		switch x := v.(type) {
		case *ssa.FieldAddr:
			st := x.X.Type().Underlying().(*types.Pointer).Elem().Underlying().(*types.Struct)
			parts = append([]string{st.Field(x.Field).Name()}, parts...)
			v = x.X
		default:
			if isRecvValue(v, recv) {
				return strings.Join(parts, "."), len(parts) > 0
			}
			return "", false
		}
	}
}

// isRecvValue: v is the receiver, or a load of the local cell the receiver was spilled to (captured by a closure)
func isRecvValue(v ssa.Value, recv ssa.Value) bool {
	if v == recv {
		return true
	}
	u, ok := v.(*ssa.UnOp)
	if !ok {
		return false
	}
	a, ok := u.X.(*ssa.Alloc)
	if !ok {
		return false
	}
	n := 0
	for _, r := range *a.Referrers() {
		if st, ok := r.(*ssa.Store); ok && st.Addr == ssa.Value(a) {
			if st.Val != recv {
				return false
			}
			n++
		}
	}
	return n == 1
}

func covered(written map[string]bool, p string) bool {
	for q := p; q != ""; {
		if written[q] {
			return true
		}
		i := strings.LastIndex(q, ".")
		if i < 0 {
			break
		}
		q = q[:i]
	}
	return false
}

func benignUse(u *ssa.UnOp) bool {
	refs := u.Referrers()
	if refs == nil || len(*refs) == 0 {
		return true
	}
	for _, r := range *refs {
		switch x := r.(type) {
		case *ssa.Call:
			b, ok := x.Call.Value.(*ssa.Builtin)
			if !ok || (b.Name() != "cap" && b.Name() != "len") {
				return false
			}
		case *ssa.BinOp:
			// comparison with nil
			isNil := func(v ssa.Value) bool { c, ok := v.(*ssa.Const); return ok && c.Value == nil }
			if !(isNil(x.X) || isNil(x.Y)) {
				return false
			}
		case *ssa.Slice:
			// x = x[:0] style truncation: only the capacity survives
			if !(x.Low == nil && x.High != nil) {
				return false
			}
			if c, ok := x.High.(*ssa.Const); !ok || c.Value == nil || c.Int64() != 0 {
				return false
			}
		case *ssa.DebugRef:
		case *ssa.FieldAddr:
			// a field of the pointee: stores are writes; loads must themselves be benign
			for _, r2 := range *x.Referrers() {
				switch y := r2.(type) {
				case *ssa.Store:
					if y.Addr != ssa.Value(x) {
						return false
					}
				case *ssa.UnOp:
					if !benignUse(y) {
						return false
					}
				default:
					return false
				}
			}
		default:
			return false
		}
	}
	return true
}

func (e *Eng) rbw(fn *ssa.Function, memo map[*ssa.Function]*rbwSummary, depth int) *rbwSummary {
	if s, ok := memo[fn]; ok {
		return s
	}
	sum := &rbwSummary{reads: map[string]string{}, writes: map[string]bool{}}
	memo[fn] = sum
	if len(fn.Blocks) == 0 || len(fn.Params) == 0 || depth > 6 {
		return sum
	}
	recv := ssa.Value(fn.Params[0])
	in := map[*ssa.BasicBlock]map[string]bool{}
	var retSets []map[string]bool
	work := []*ssa.BasicBlock{fn.Blocks[0]}
	in[fn.Blocks[0]] = map[string]bool{}
	visited := map[*ssa.BasicBlock]int{}
	for len(work) > 0 {
		b := work[0]
		work = work[1:]
		visited[b]++
		if visited[b] > 50 {
			continue
		}
		w := map[string]bool{}
		for k := range in[b] {
			w[k] = true
		}
		for _, ins := range b.Instrs {
			switch x := ins.(type) {
			case *ssa.Store:
				if p, ok := fieldPath(x.Addr, recv); ok {
					w[p] = true
				}
			case *ssa.UnOp:
				if p, ok := fieldPath(x.X, recv); ok && !covered(w, p) {
					cls := "value"
					if benignUse(x) {
						cls = "len/cap/nil-test or [:0] only"
					}
					if old, seen := sum.reads[p]; !seen || (old != "value" && cls == "value") {
						sum.reads[p] = cls
					}
				}
			case *ssa.Call:
				cal := x.Call.StaticCallee()
				if cal != nil && cal.Pkg == fn.Pkg && len(x.Call.Args) > 0 && isRecvValue(x.Call.Args[0], recv) && len(cal.Blocks) > 0 {
					cs := e.rbw(cal, memo, depth+1)
					for p, cls := range cs.reads {
						if !covered(w, p) {
							if old, seen := sum.reads[p]; !seen || (old != "value" && cls == "value") {
								sum.reads[p] = cls + " (in " + funcKey(cal) + ")"
							}
						}
					}
					for p := range cs.writes {
						w[p] = true
					}
				}
				// the address of a field handed to a callee (e.g. &pj.ParsedJson to parseString): treated as read+written
				for _, a := range x.Call.Args[0:] {
					if p, ok := fieldPath(a, recv); ok && !covered(w, p) && cal != nil && cal.Pkg == fn.Pkg {
						_ = p
					}
				}
			case *ssa.Return:
				cp := map[string]bool{}
				for k := range w {
					cp[k] = true
				}
				retSets = append(retSets, cp)
			}
		}
		for _, s := range b.Succs {
			old, ok := in[s]
			if !ok {
				ns := map[string]bool{}
				for k := range w {
					ns[k] = true
				}
				in[s] = ns
				work = append(work, s)
				continue
			}
			changed := false
			for k := range old {
				if !w[k] {
					delete(old, k)
					changed = true
				}
			}
			if changed {
				work = append(work, s)
			}
		}
	}
	if len(retSets) > 0 {
		for k := range retSets[0] {
			all := true
			for _, r := range retSets[1:] {
				if !r[k] {
					all = false
				}
			}
			if all {
				sum.writes[k] = true
			}
		}
	}
	return sum
}

// reuseObligations: the state a reused parser object may carry into parseMessage.
func (e *Eng) reuseObligations() {
	pm := e.fn("(*internalParsedJson).parseMessage")
	if pm == nil {
		return
	}
	memo := map[*ssa.Function]*rbwSummary{}
	s := e.rbw(pm, memo, 0)
	// fields whose earlier VALUE may flow into this call. indexChans is expected: the channel object is reused and
	// must be empty (terminator/drain obligations); buffers are overwritten slot by slot before being sent.
	expected := map[string]string{
		"indexChans":  "reused channel: emptiness on entry is the C07/C15 drain invariant",
		"copyStrings": "set for every call by newInternalParsedJson (reuse#options-reset) resp. by the ParseNDStream worker (worker#copies-strings)",
	}
	var bad, benign []string
	var keys []string
	for p := range s.reads {
		keys = append(keys, p)
	}
	sort.Strings(keys)
	for _, p := range keys {
		cls := s.reads[p]
		switch {
		case strings.HasPrefix(cls, "len/cap"):
			benign = append(benign, p+" ["+cls+"]")
		case expected[p] != "":
			benign = append(benign, p+" ["+expected[p]+"]")
		default:
			bad = append(bad, p+" ["+cls+"]")
		}
	}
	e.add("reuse#reads-before-writes", funcKey(pm), []string{"C15"}, len(bad) == 0 && len(keys) > 0,
		fmt.Sprintf("value carried over: %s | benign: %s", strings.Join(bad, "; "), strings.Join(benign, "; ")))
	// newInternalParsedJson: a reused internal object gets the caller's ParsedJson and fresh options
	nip := e.fn("newInternalParsedJson")
	if nip != nil {
		setsCopy := false
		for _, b := range nip.Blocks {
			for _, in := range b.Instrs {
				if st, ok := in.(*ssa.Store); ok {
					if fa, ok := st.Addr.(*ssa.FieldAddr); ok {
						stt := fa.X.Type().Underlying().(*types.Pointer).Elem().Underlying().(*types.Struct)
						if stt.Field(fa.Field).Name() == "copyStrings" {
							if c, ok := st.Val.(*ssa.Const); ok && c.Value != nil && c.Value.String() == "true" {
								setsCopy = true
							}
						}
					}
				}
			}
		}
		e.add("reuse#options-reset", funcKey(nip), []string{"C15", "C16"}, setsCopy, "copyStrings is reset to its default (true) before the options of this call are applied")
	}
}
