package main

// Codec pairing (C11): for every tag the encoder (Serialize) appends exactly the number of value bytes and consumes
// exactly the number of tape words that the decoder (Deserialize) reads resp. produces, and both equal the documented
// format stated as `//@ codec` lines in the contract file. Extracted per path of the two loop bodies from go/ssa.

import (
	"bufio"
	"fmt"
	"go/constant"
	"go/token"
	"go/types"
	"os"
	"path/filepath"
	"sort"
	"strings"

	"golang.org/x/tools/go/ssa"
)

type codecSig struct {
	tags  byteSet // emitted (Serialize) / consumed (Deserialize) tag bytes
	bytes int
	words int
	extra string
}

func tagName(s byteSet) string {
	var parts []string
	for i := 0; i < 256; i++ {
		if s[i] {
			if i >= 0x21 && i < 0x7f {
				parts = append(parts, fmt.Sprintf("'%c'", rune(i)))
			} else {
				parts = append(parts, fmt.Sprintf("%#02x", i))
			}
		}
	}
	return strings.Join(parts, ",")
}

// loopPaths enumerates the acyclic paths of the loop body whose header holds the phi named offName, calling visit per
// instruction; refine is called at byte-typed comparisons.
func (e *Eng) codecPaths(fn *ssa.Function, offName string, tagIsByteVal func(v ssa.Value) bool,
	onInstr func(in ssa.Instruction, st *codecState)) []codecState {
	var head *ssa.BasicBlock
	var offPhi *ssa.Phi
	for _, b := range fn.Blocks {
		for _, in := range b.Instrs {
			if phi, ok := in.(*ssa.Phi); ok && phi.Comment == offName && (b.Comment == "for.loop" || b.Comment == "rangeindex.loop") {
				// the main loop is the one with the most back edges (every `continue` / case end jumps to it)
				if head == nil || len(b.Preds) > len(head.Preds) {
					head, offPhi = b, phi
				}
			}
		}
	}
	if head == nil {
		return nil
	}
	var out []codecState
	finish := func(latch *ssa.BasicBlock, st codecState) {
		for k, pred := range head.Preds {
			if pred == latch {
				d, known := st.offVals[offPhi.Edges[k]]
				if !known {
					return // passes through an inner loop: the net advance is not a constant
				}
				st.words = d + st.defer1
				out = append(out, st)
			}
		}
	}
	var walk func(b *ssa.BasicBlock, st codecState, depth int)
	walk = func(b *ssa.BasicBlock, st codecState, depth int) {
		if depth > 300 || st.seen[b] {
			return
		}
		ns0 := map[*ssa.BasicBlock]bool{b: true}
		for k := range st.seen {
			ns0[k] = true
		}
		st.seen = ns0
		for _, in := range b.Instrs {
			switch x := in.(type) {
			case *ssa.BinOp:
				if d, known := st.offVals[x.X]; x.Op == token.ADD && known {
					if c, ok := x.Y.(*ssa.Const); ok && c.Value != nil {
						k, _ := constant.Int64Val(c.Value)
						st.offVals = cloneSet(st.offVals)
						st.offVals[x] = d + int(k)
					}
				}
			case *ssa.Phi:
				// resolve phis along the path
				for k, pred := range b.Preds {
					if pred == st.prev {
						if d, known := st.offVals[x.Edges[k]]; known {
							st.offVals = cloneSet(st.offVals)
							st.offVals[x] = d
						}
						if c, ok := x.Edges[k].(*ssa.Const); ok && c.Value != nil && x.Comment == "ntype" {
							v, _ := constant.Int64Val(c.Value)
							var s byteSet
							s[int(v)&0xff] = true
							st.tags = s
						}
					}
				}
			case *ssa.Return:
				return // error / finished paths are not loop iterations
			case *ssa.Panic:
				return
			}
			onInstr(in, &st)
		}
		last := b.Instrs[len(b.Instrs)-1]
		if iff, ok := last.(*ssa.If); ok {
			c, neg := condOf(b)
			_ = iff
			if bin, ok := c.(*ssa.BinOp); ok && tagIsByteVal(bin.X) {
				if cst, ok := bin.Y.(*ssa.Const); ok && cst.Value != nil && (bin.Op == token.EQL || bin.Op == token.NEQ) {
					v, _ := constant.Int64Val(cst.Value)
					for _, truth := range []bool{true, false} {
						ns := st
						eq := truth == (bin.Op == token.EQL)
						for ch := 0; ch < 256; ch++ {
							if (int64(ch) == v) != eq {
								ns.tags[ch] = false
							}
						}
						if ns.tags.empty() {
							continue
						}
						k := 1
						if truth != neg {
							k = 0
						}
						ns.prev = b
						if b.Succs[k] == head {
							finish(b, ns)
						} else {
							walk(b.Succs[k], ns, depth+1)
						}
					}
					return
				}
			}
		}
		for _, s := range b.Succs {
			ns := st
			ns.prev = b
			if s == head {
				finish(b, ns)
				continue
			}
			if s.Index < head.Index && s != head {
				continue // leaves the loop backwards
			}
			walk(s, ns, depth+1)
		}
	}
	st0 := codecState{tags: fullSet(), offVals: map[ssa.Value]int{offPhi: 0}, prev: head}
	// successors of the head that stay in the loop: the body is the successor that is not the exit (exit has higher
	// index than every body block in go/ssa's layout only sometimes): take the one from which head is reachable
	for _, s := range head.Succs {
		if r, _ := reachWithout(ipos{s, -1}, func(in ssa.Instruction) bool { return in.Block() == head }, func(ssa.Instruction) bool { return false }); r {
			walk(s, st0, 0)
		}
	}
	return out
}

type codecState struct {
	tags    byteSet
	bytes   int
	words   int
	offVals map[ssa.Value]int // value -> delta to the loop-carried `off` at the start of the iteration
	prev    *ssa.BasicBlock
	notes   []string
	seen    map[*ssa.BasicBlock]bool
	defer1  int
}

func cloneSet(m map[ssa.Value]int) map[ssa.Value]int {
	n := map[ssa.Value]int{}
	for k, v := range m {
		n[k] = v
	}
	return n
}

func fieldNameOf(v ssa.Value) string {
	if u, ok := v.(*ssa.UnOp); ok && u.Op == token.MUL {
		if fa, ok := u.X.(*ssa.FieldAddr); ok {
			if p, ok := fa.X.Type().Underlying().(*types.Pointer); ok {
				if s, ok := p.Elem().Underlying().(*types.Struct); ok {
					return s.Field(fa.Field).Name()
				}
			}
		}
	}
	return ""
}

func (e *Eng) codec() {
	props := []string{"C11"}
	ser := e.fn("(*Serializer).Serialize")
	de := e.fn("(*Serializer).Deserialize")
	name := "codec#widths-agree"
	if ser == nil || de == nil {
		e.add(name, "(*Serializer).Serialize", props, false, "functions not found")
		return
	}
	isTag := func(v ssa.Value) bool {
		b, ok := v.Type().Underlying().(*types.Basic)
		return ok && b.Kind() == types.Uint8
	}
	// encoder: bytes = 8 per append to s.valuesBuf of the 8-byte scratch array
	serPaths := e.codecPaths(ser, "off", isTag, func(in ssa.Instruction, st *codecState) {
		if c, ok := in.(*ssa.Call); ok {
			if b, ok := c.Call.Value.(*ssa.Builtin); ok && b.Name() == "append" && len(c.Call.Args) == 2 {
				if fieldNameOf(c.Call.Args[0]) == "valuesBuf" {
					n := -1
					if sl, ok := c.Call.Args[1].(*ssa.Slice); ok {
						if p, ok := sl.X.Type().Underlying().(*types.Pointer); ok {
							if a, ok := p.Elem().Underlying().(*types.Array); ok && sl.Low == nil && sl.High == nil {
								n = int(a.Len())
							}
						}
					}
					if n < 0 {
						st.notes = append(st.notes, "append of unknown width at "+e.pos(in))
						n = 0
					}
					st.bytes += n
				}
			}
		}
	})
	// decoder: bytes = N for each values = values[N:]; words = off increments; a NOP defers its word (nSkips+1)
	dePaths := e.codecPaths(de, "off", isTag, func(in ssa.Instruction, st *codecState) {
		switch x := in.(type) {
		case *ssa.Slice:
			if x.Low != nil && x.High == nil {
				if c, ok := x.Low.(*ssa.Const); ok && c.Value != nil {
					if sl, ok := x.X.Type().Underlying().(*types.Slice); ok {
						if b, ok := sl.Elem().Underlying().(*types.Basic); ok && b.Kind() == types.Uint8 {
							k, _ := constant.Int64Val(c.Value)
							st.bytes += int(k)
						}
					}
				}
			}
		case *ssa.BinOp:
			if x.Op == token.ADD {
				if phi, ok := x.X.(*ssa.Phi); ok && phi.Comment == "nSkips" && isConstInt(x.Y, 1) {
					st.defer1 = 1 // the NOP's tape word is written when the run ends
					st.notes = append(st.notes, "deferred")
				}
			}
		}
	})
	collect := func(paths []codecState) (map[string][2]int, []string) {
		m := map[string][2]int{}
		var bad []string
		for _, p := range paths {
			for ch := 0; ch < 256; ch++ {
				if !p.tags[ch] {
					continue
				}
				var one byteSet
				one[ch] = true
				k := tagName(one)
				v := [2]int{p.bytes, p.words}
				if old, ok := m[k]; ok && old != v {
					bad = append(bad, fmt.Sprintf("tag %s has two different widths %v and %v", k, old, v))
				}
				m[k] = v
			}
			for _, n := range p.notes {
				if n != "deferred" {
					bad = append(bad, n)
				}
			}
		}
		return m, bad
	}
	debugCodecPaths("ser", serPaths)
	debugCodecPaths("dec", dePaths)
	sm, sbad := collect(serPaths)
	dm, dbad := collect(dePaths)
	// spec lines: codec 'x','y' values N words M
	want := map[string][2]int{}
	if f, err := os.Open(filepath.Join(e.repo, "verif_contracts.go")); err == nil {
		sc := bufio.NewScanner(f)
		sc.Buffer(make([]byte, 1<<20), 1<<20)
		for sc.Scan() {
			l := strings.TrimSpace(sc.Text())
			if !strings.HasPrefix(l, "//@") {
				continue
			}
			l = strings.TrimSpace(strings.TrimPrefix(l, "//@"))
			if !strings.HasPrefix(l, "codec ") {
				continue
			}
			var tags string
			var nb, nw int
			if _, err := fmt.Sscanf(strings.TrimPrefix(l, "codec "), "%s values %d words %d", &tags, &nb, &nw); err == nil {
				for _, t := range strings.Split(tags, ",") {
					want[t] = [2]int{nb, nw}
				}
			}
		}
		f.Close()
	}
	var diffs []string
	keys := map[string]bool{}
	for k := range sm {
		keys[k] = true
	}
	for k := range dm {
		keys[k] = true
	}
	for k := range want {
		keys[k] = true
	}
	var ks []string
	for k := range keys {
		ks = append(ks, k)
	}
	sort.Strings(ks)
	for _, k := range ks {
		s, sok := sm[k]
		d, dok := dm[k]
		w, wok := want[k]
		switch {
		case wok && sok && dok && s == w && d == w:
		case !wok && !sok && dok:
			// the decoder's default (unknown tag -> error return) never reaches the loop end: cannot appear
			diffs = append(diffs, fmt.Sprintf("%s: decoder accepts (values %d, words %d) but the format does not list it", k, d[0], d[1]))
		case !wok && sok && !dok:
			diffs = append(diffs, fmt.Sprintf("%s: encoder emits (values %d, words %d), decoder rejects it", k, s[0], s[1]))
		default:
			diffs = append(diffs, fmt.Sprintf("%s: format %v(%v) encoder %v(%v) decoder %v(%v) [values,words]", k, w, wok, s, sok, d, dok))
		}
	}
	diffs = append(diffs, sbad...)
	diffs = append(diffs, dbad...)
	if os.Getenv("FRAME_DUMP_CODEC") != "" {
		for _, k := range ks {
			fmt.Fprintf(os.Stderr, "%s ser=%v dec=%v want=%v\n", k, sm[k], dm[k], want[k])
		}
	}
	ok := len(want) > 0 && len(diffs) == 0
	detail := fmt.Sprintf("%d tags: value bytes and tape words agree between Serialize, Deserialize and the documented format", len(want))
	if !ok {
		detail = strings.Join(diffs, "; ")
	}
	e.add(name, funcKey(ser), props, ok, detail)
}

func debugCodecPaths(name string, ps []codecState) {
	if os.Getenv("FRAME_DUMP_CODEC") == "" {
		return
	}
	for _, p := range ps {
		fmt.Fprintf(os.Stderr, "PATH %s tags=%s bytes=%d words=%d notes=%v\n", name, p.tags.String(), p.bytes, p.words, p.notes)
	}
}

// codecConfig (C11): the dependency contract assumed for the round trip ("DecodeAll / the stream readers decode every
// frame the matching encoder produced, of any size") holds for decoders created WITHOUT limiting options. The decoders
// of the package are created by zstd.NewReader(nil) and s2.NewReader(nil) with an empty option list.
func (e *Eng) codecConfig() {
	props := []string{"C11"}
	n := 0
	var bad []string
	for _, fn := range e.allFuncs() {
		for _, p := range find(fn, func(in ssa.Instruction) bool {
			c := callCommon(in)
			if c == nil {
				return false
			}
			cn := calleeName(c)
			return cn == "zstd.NewReader" || cn == "s2.NewReader"
		}) {
			n++
			c := callCommon(p.b.Instrs[p.i])
			// variadic options: the last argument must be the nil slice constant
			last := c.Args[len(c.Args)-1]
			if cst, ok := last.(*ssa.Const); !ok || !cst.IsNil() {
				bad = append(bad, calleeName(c)+" at "+e.pos(p.b.Instrs[p.i])+" is given options (a size or memory limit would reject streams the encoder can produce)")
			}
		}
	}
	e.add("codec#decoders-unrestricted", "package", props, n > 0 && len(bad) == 0, fmt.Sprintf("%d decoder constructors, all without options %s", n, strings.Join(bad, "; ")))
}

// codecFlush: the encoder's scratch buffers are flushed IN FULL. Every Write of a scratch buffer inside Serialize
// passes either the whole buffer (an unsliced read of the field) with the raw counter advanced by the length of that
// same buffer, or the prefix [:n] of a fixed-size buffer with the raw counter advanced by the same (non-constant) n;
// and a buffer is emptied inside a loop only directly after such a whole-buffer Write, with no store to it between.
// What it rules out: a flush that writes / counts a part of the buffer and then discards the rest (the decoder then
// runs out of values or reads a shifted stream) - a history/size dependent loss no per-entry width table sees.
func (e *Eng) codecFlush() {
	props := []string{"C11"}
	name := "codec#flush-writes-whole-buffer"
	ser := e.fn("(*Serializer).Serialize")
	if ser == nil {
		e.add(name, "(*Serializer).Serialize", props, false, "function not found")
		return
	}
	storeField := func(in ssa.Instruction) string {
		if s, ok := in.(*ssa.Store); ok {
			if fa, ok := s.Addr.(*ssa.FieldAddr); ok {
				if p, ok := fa.X.Type().Underlying().(*types.Pointer); ok {
					if st, ok := p.Elem().Underlying().(*types.Struct); ok {
						return st.Field(fa.Field).Name()
					}
				}
			}
		}
		return ""
	}
	inLoop := func(b *ssa.BasicBlock) bool {
		seen := map[*ssa.BasicBlock]bool{}
		work := append([]*ssa.BasicBlock{}, b.Succs...)
		for len(work) > 0 {
			x := work[len(work)-1]
			work = work[:len(work)-1]
			if x == b {
				return true
			}
			if seen[x] {
				continue
			}
			seen[x] = true
			work = append(work, x.Succs...)
		}
		return false
	}
	var bad []string
	writes := map[string]int{}
	for _, b := range ser.Blocks {
		for k, in := range b.Instrs {
			// (1) every Write of a scratch buffer
			if c, ok := in.(*ssa.Call); ok && c.Call.IsInvoke() && c.Call.Method.Name() == "Write" && len(c.Call.Args) == 1 {
				arg := c.Call.Args[0]
				if f := fieldNameOf(arg); f != "" {
					// whole buffer: the counter must advance by len(<same field>) in this block, nothing stored to the field before the Write
					counted := false
					// the length that is counted is taken before anything is stored to the buffer in this block; the
					// addition itself may stand before or after the Write
					goodLen := map[ssa.Value]bool{}
					storedTo := false
					for j, p := range b.Instrs {
						if lc, ok := p.(*ssa.Call); ok && !storedTo {
							if bi, ok := lc.Call.Value.(*ssa.Builtin); ok && bi.Name() == "len" && fieldNameOf(lc.Call.Args[0]) == f {
								goodLen[lc] = true
							}
						}
						if bo, ok := p.(*ssa.BinOp); ok && bo.Op == token.ADD && (goodLen[bo.X] || goodLen[bo.Y]) {
							counted = true
						}
						if storeField(p) == f {
							storedTo = true
							if j < k {
								bad = append(bad, fmt.Sprintf("%s: %s is stored to before it is written out in the same block", e.pos(in), f))
							}
						}
					}
					if !counted {
						bad = append(bad, fmt.Sprintf("%s: whole-buffer Write of %s without advancing a counter by len(%s)", e.pos(in), f, f))
					}
					writes[f]++
				} else if sl, ok := arg.(*ssa.Slice); ok && fieldNameOf(sl.X) != "" {
					f := fieldNameOf(sl.X)
					_, constHigh := sl.High.(*ssa.Const)
					if sl.Low != nil || sl.High == nil || constHigh {
						bad = append(bad, fmt.Sprintf("%s: Write of a part of %s that is not the counted prefix [:n]", e.pos(in), f))
					} else {
						counted := false
						for _, p := range b.Instrs {
							if bo, ok := p.(*ssa.BinOp); ok && bo.Op == token.ADD && (bo.X == sl.High || bo.Y == sl.High) {
								counted = true
							}
						}
						if !counted {
							bad = append(bad, fmt.Sprintf("%s: prefix Write of %s without advancing a counter by the same length", e.pos(in), f))
						}
					}
					writes[f]++
				}
			}
			// (2) emptying a buffer inside a loop
			if f := storeField(in); f != "" {
				st := in.(*ssa.Store)
				if sl, ok := st.Val.(*ssa.Slice); ok && fieldNameOf(sl.X) == f && sl.High != nil && isConstInt(sl.High, 0) && inLoop(b) {
					flushed := false
					for _, p := range b.Instrs[:k] {
						if c, ok := p.(*ssa.Call); ok && c.Call.IsInvoke() && c.Call.Method.Name() == "Write" && len(c.Call.Args) == 1 && fieldNameOf(c.Call.Args[0]) == f {
							flushed = true
						} else if storeField(p) == f {
							flushed = false
						}
					}
					if !flushed {
						bad = append(bad, fmt.Sprintf("%s: %s is emptied inside the loop without the whole buffer having been written out just before", e.pos(in), f))
					}
				}
			}
		}
	}
	for _, f := range []string{"valuesBuf", "tagsBuf"} {
		if writes[f] < 2 {
			bad = append(bad, fmt.Sprintf("expected a flush of %s inside the loop and one after it, found %d", f, writes[f]))
		}
	}
	detail := fmt.Sprintf("%d scratch-buffer writes (valuesBuf %d, tagsBuf %d): each passes the whole buffer / the counted prefix, counters advance by the same length, buffers are emptied only after a whole-buffer write", writes["valuesBuf"]+writes["tagsBuf"], writes["valuesBuf"], writes["tagsBuf"])
	if len(bad) > 0 {
		detail = strings.Join(bad, "; ")
	}
	e.add(name, funcKey(ser), props, len(bad) == 0, detail)
}
