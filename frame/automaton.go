package main

// Stage-2 automaton obligation (C01, C08, C17): the transition relation of the goto machine unifiedMachine, extracted
// from go/ssa, equals the pushdown automaton of the JSON grammar stated as `//@ transition` lines in the contract file.
// A transition is: label, then per consumed structural character the set of bytes under which the path is taken, the
// calls made (string / number / atom recognisers, tape writes with their constant arguments), scope pushes/pops, the
// target label. Paths into `fail` and the end-of-stream exits into `succeed` are not listed: everything not listed fails.

import (
	"bufio"
	"fmt"
	"go/ast"
	"go/constant"
	"go/token"
	"go/types"
	"os"
	"path/filepath"
	"sort"
	"strings"

	"golang.org/x/tools/go/ssa"
)

type byteSet [256]bool

func fullSet() byteSet {
	var s byteSet
	for i := range s {
		s[i] = true
	}
	return s
}
func (s byteSet) empty() bool {
	for _, b := range s {
		if b {
			return false
		}
	}
	return true
}
func (s byteSet) String() string {
	all := true
	for _, b := range s {
		all = all && b
	}
	if all {
		return "[any]"
	}
	// complement form when large
	n := 0
	for _, b := range s {
		if b {
			n++
		}
	}
	render := func(want bool) string {
		var parts []string
		for i := 0; i < 256; {
			if s[i] != want {
				i++
				continue
			}
			j := i
			for j+1 < 256 && s[j+1] == want {
				j++
			}
			if i == j {
				parts = append(parts, fmt.Sprintf("%02x", i))
			} else {
				parts = append(parts, fmt.Sprintf("%02x-%02x", i, j))
			}
			i = j + 1
		}
		return strings.Join(parts, ",")
	}
	if n > 128 {
		return "[^" + render(false) + "]"
	}
	return "[" + render(true) + "]"
}

type autoPath struct {
	events []string
	cur    byteSet
	curUse bool // the current character was tested on this path
}

func (e *Eng) automaton() {
	props := []string{"C01", "C08", "C17"}
	fn := e.fn("(*internalParsedJson).unifiedMachine")
	name := "automaton#transitions-equal-grammar"
	if fn == nil {
		e.add(name, "(*internalParsedJson).unifiedMachine", props, false, "function not found")
		return
	}
	// label names from the syntax
	labels := map[string]bool{"for.loop": true}
	if syn, ok := fn.Syntax().(*ast.FuncDecl); ok && syn.Body != nil {
		ast.Inspect(syn.Body, func(n ast.Node) bool {
			if ls, ok := n.(*ast.LabeledStmt); ok {
				labels[ls.Label.Name] = true
			}
			return true
		})
	}
	isLabel := func(b *ssa.BasicBlock) bool { return labels[b.Comment] }
	var anomalies []string
	got := map[string]bool{}
	constStr := func(v ssa.Value) string {
		if c, ok := v.(*ssa.Const); ok && c.Value != nil {
			if c.Value.Kind() == constant.Int {
				if x, ok := constant.Int64Val(c.Value); ok {
					if x >= 0x20 && x < 0x7f {
						return fmt.Sprintf("'%c'", rune(x))
					}
					return fmt.Sprintf("%d", x)
				}
			}
			return c.Value.String()
		}
		return "*"
	}
	isByte := func(v ssa.Value) bool {
		b, ok := v.Type().Underlying().(*types.Basic)
		return ok && b.Kind() == types.Uint8
	}
	// strip !x
	strip := func(v ssa.Value) (ssa.Value, bool) {
		neg := false
		for {
			u, ok := v.(*ssa.UnOp)
			if !ok || u.Op != token.NOT {
				return v, neg
			}
			v, neg = u.X, !neg
		}
	}
	var walk func(start string, b *ssa.BasicBlock, i int, p autoPath, depth int)
	emit := func(start string, p autoPath, target string) {
		ev := append([]string{}, p.events...)
		if p.curUse {
			ev = append(ev, p.cur.String())
		}
		got[start+": "+strings.Join(ev, " ")+" -> "+target] = true
	}
	walk = func(start string, b *ssa.BasicBlock, i int, p autoPath, depth int) {
		if depth > 400 {
			anomalies = append(anomalies, "path too long from "+start)
			return
		}
		for ; i < len(b.Instrs); i++ {
			switch x := b.Instrs[i].(type) {
			case *ssa.Call:
				cn := calleeName(&x.Call)
				switch cn {
				case "updateChar":
					if p.curUse {
						p.events = append(append([]string{}, p.events...), p.cur.String())
					}
					p.events = append(append([]string{}, p.events...), "next")
					p.cur, p.curUse = fullSet(), false
				case "parseString", "addNumber", "isValidTrueAtom", "isValidFalseAtom", "isValidNullAtom":
					p.events = append(append([]string{}, p.events...), cn)
				case "(*ParsedJson).write_tape":
					p.events = append(append([]string{}, p.events...), fmt.Sprintf("write(%s,%s)", constStr(x.Call.Args[1]), constStr(x.Call.Args[2])))
				case "(*ParsedJson).annotate_previousloc":
					p.events = append(append([]string{}, p.events...), "patch")
				}
			case *ssa.BinOp:
				// scope push: (loc << 2) | K appended later; record the constant
				if x.Op == token.OR {
					if c, ok := x.Y.(*ssa.Const); ok && c.Value != nil {
						if _, isShift := x.X.(*ssa.BinOp); isShift {
							p.events = append(append([]string{}, p.events...), "push("+constStr(c)+")")
						}
					}
				}
			case *ssa.Slice:
				// pop: containingScopeOffset[:len-1]
				if x.High != nil && x.Low == nil {
					if bin, ok := x.High.(*ssa.BinOp); ok && bin.Op == token.SUB && isConstInt(bin.Y, 1) {
						p.events = append(append([]string{}, p.events...), "pop")
					}
				}
			case *ssa.Return:
				emit(start, p, "return")
				return
			case *ssa.Jump:
				t := b.Succs[0]
				if isLabel(t) {
					emit(start, p, t.Comment)
					return
				}
				walk(start, t, 0, p, depth+1)
				return
			case *ssa.If:
				c, neg := strip(x.Cond)
				follow := func(k int, np autoPath) {
					t := b.Succs[k]
					if isLabel(t) {
						emit(start, np, t.Comment)
						return
					}
					walk(start, t, 0, np, depth+1)
				}
				edgeFor := func(truth bool) int { // successor index taken when c == truth
					if truth != neg {
						return 0
					}
					return 1
				}
				switch cv := c.(type) {
				case *ssa.Extract:
					// done flag of updateChar
					if call, ok := cv.Tuple.(*ssa.Call); ok && calleeName(&call.Call) == "updateChar" && cv.Index == 0 {
						if t := b.Succs[edgeFor(true)]; t.Comment != "succeed" {
							anomalies = append(anomalies, "end of the index stream after "+start+" does not go to succeed but to "+t.Comment)
						}
						follow(edgeFor(false), p)
						return
					}
				case *ssa.Call:
					cn := calleeName(&cv.Call)
					if cn == "parseString" || cn == "addNumber" || strings.HasPrefix(cn, "isValid") {
						if t := b.Succs[edgeFor(false)]; t.Comment != "fail" {
							anomalies = append(anomalies, "a failing "+cn+" after "+start+" does not go to fail but to "+t.Comment)
						}
						follow(edgeFor(true), p)
						return
					}
				case *ssa.BinOp:
					if isByte(cv.X) {
						if cst, ok := cv.Y.(*ssa.Const); ok && cst.Value != nil {
							v, _ := constant.Int64Val(cst.Value)
							for _, truth := range []bool{true, false} {
								np := p
								np.events = append([]string{}, p.events...)
								np.curUse = true
								for ch := 0; ch < 256; ch++ {
									var holds bool
									switch cv.Op {
									case token.EQL:
										holds = int64(ch) == v
									case token.NEQ:
										holds = int64(ch) != v
									case token.LSS:
										holds = int64(ch) < v
									case token.LEQ:
										holds = int64(ch) <= v
									case token.GTR:
										holds = int64(ch) > v
									case token.GEQ:
										holds = int64(ch) >= v
									}
									if holds != truth {
										np.cur[ch] = false
									}
								}
								if !np.cur.empty() {
									follow(edgeFor(truth), np)
								}
							}
							return
						}
					}
					// return-address kind: offset & 3 == K
					if and, ok := cv.X.(*ssa.BinOp); ok && and.Op == token.AND && (cv.Op == token.EQL || cv.Op == token.NEQ) {
						for _, truth := range []bool{true, false} {
							np := p
							eq := truth == (cv.Op == token.EQL)
							rel := "!="
							if eq {
								rel = "=="
							}
							np.events = append(append([]string{}, p.events...), "kind"+rel+constStr(cv.Y))
							follow(edgeFor(truth), np)
						}
						return
					}
				}
				// unknown condition: explore both, mark
				for k := 0; k < 2; k++ {
					np := p
					np.events = append(append([]string{}, p.events...), fmt.Sprintf("?cond@%s:%d", e.pos(x), k))
					follow(k, np)
				}
				return
			}
		}
	}
	for _, b := range fn.Blocks {
		if isLabel(b) && b.Comment != "succeed" && b.Comment != "fail" {
			walk(b.Comment, b, 0, autoPath{cur: fullSet()}, 0)
		}
	}
	// the entry prefix up to the first label
	walk("entry", fn.Blocks[0], 0, autoPath{cur: fullSet()}, 0)
	// drop transitions into fail
	var gotList []string
	for k := range got {
		if strings.HasSuffix(k, "-> fail") {
			continue
		}
		gotList = append(gotList, k)
	}
	sort.Strings(gotList)
	if os.Getenv("FRAME_DUMP_AUTOMATON") != "" {
		for _, g := range gotList {
			fmt.Fprintln(os.Stderr, "//@   transition "+g)
		}
	}
	// the specification
	want := map[string]bool{}
	if f, err := os.Open(filepath.Join(e.repo, "verif_contracts.go")); err == nil {
		sc := bufio.NewScanner(f)
		sc.Buffer(make([]byte, 1<<20), 1<<20)
		for sc.Scan() {
			l := strings.TrimSpace(sc.Text())
			if strings.HasPrefix(l, "//@") {
				l = strings.TrimSpace(strings.TrimPrefix(l, "//@"))
				if strings.HasPrefix(l, "transition ") {
					want[strings.TrimSpace(strings.TrimPrefix(l, "transition "))] = true
				}
			}
		}
		f.Close()
	}
	var extra, missing []string
	for _, g := range gotList {
		if !want[g] {
			extra = append(extra, g)
		}
	}
	for w := range want {
		if !got[w] {
			missing = append(missing, w)
		}
	}
	sort.Strings(missing)
	ok := len(want) > 0 && len(extra) == 0 && len(missing) == 0 && len(anomalies) == 0
	detail := fmt.Sprintf("%d transitions of the machine equal the %d transitions of the grammar automaton", len(gotList), len(want))
	if !ok {
		detail = fmt.Sprintf("machine has transitions the grammar does not allow: %v | grammar transitions the machine lacks: %v | anomalies: %v", extra, missing, anomalies)
	}
	e.add(name, funcKey(fn), props, ok, detail)
}
