package main

// C07: hand-off discipline of the two-stage pipeline (single producer, single consumer, one slot per send,
// the consumer asks for the next buffer only when it has used up the current one, a failing stage 2 drains the
// channel up to the terminator). Each obligation is a statement about all CFG paths of the real function.

import (
	"sort"
	"path/filepath"
	"os"
	"bufio"
	"fmt"
	"go/constant"
	"go/token"
	"go/types"
	"strings"

	"golang.org/x/tools/go/ssa"
)

// chanField: v is a load of the struct field named name (pj.indexChans)
func chanField(v ssa.Value, name string) bool {
	u, ok := v.(*ssa.UnOp)
	if !ok || u.Op != token.MUL {
		return false
	}
	fa, ok := u.X.(*ssa.FieldAddr)
	if !ok {
		return false
	}
	st, ok := fa.X.Type().Underlying().(*types.Pointer)
	if !ok {
		return false
	}
	s, ok := st.Elem().Underlying().(*types.Struct)
	return ok && s.Field(fa.Field).Name() == name
}

func isRecvOn(name string) pred {
	return func(in ssa.Instruction) bool {
		switch x := in.(type) {
		case *ssa.UnOp:
			return x.Op == token.ARROW && chanField(x.X, name)
		case *ssa.Select:
			for _, s := range x.States {
				if s.Dir == types.RecvOnly && chanField(s.Chan, name) {
					return true
				}
			}
		}
		return false
	}
}
func isSendOn(name string) pred {
	return func(in ssa.Instruction) bool {
		switch x := in.(type) {
		case *ssa.Send:
			return chanField(x.Chan, name)
		case *ssa.Select:
			for _, s := range x.States {
				if s.Dir == types.SendOnly && chanField(s.Chan, name) {
					return true
				}
			}
		}
		return false
	}
}

// reachEdges is reachWithout with an edge filter: edge (b, k) is followed only if edgeOK(b, k).
func reachEdges(start ipos, target, block pred, edgeOK func(b *ssa.BasicBlock, k int) bool) (bool, ssa.Instruction) {
	type key struct {
		b *ssa.BasicBlock
		i int
	}
	seen := map[key]bool{}
	work := []key{{start.b, start.i + 1}}
	for len(work) > 0 {
		k := work[len(work)-1]
		work = work[:len(work)-1]
		if seen[k] {
			continue
		}
		seen[k] = true
		stopped := false
		for i := k.i; i < len(k.b.Instrs); i++ {
			in := k.b.Instrs[i]
			if block(in) {
				stopped = true
				break
			}
			if target(in) {
				return true, in
			}
		}
		if stopped {
			continue
		}
		for j, s := range k.b.Succs {
			if edgeOK == nil || edgeOK(k.b, j) {
				work = append(work, key{s, 0})
			}
		}
	}
	return false, nil
}

// condOf: the If terminating b, its condition with negations stripped, and whether it was negated
func condOf(b *ssa.BasicBlock) (ssa.Value, bool) {
	if len(b.Instrs) == 0 {
		return nil, false
	}
	iff, ok := b.Instrs[len(b.Instrs)-1].(*ssa.If)
	if !ok {
		return nil, false
	}
	c := iff.Cond
	neg := false
	for {
		u, ok := c.(*ssa.UnOp)
		if !ok || u.Op != token.NOT {
			break
		}
		c = u.X
		neg = !neg
	}
	return c, neg
}

func isConstInt(v ssa.Value, n int64) bool {
	c, ok := v.(*ssa.Const)
	if !ok || c.Value == nil || c.Value.Kind() != constant.Int {
		return false
	}
	x, ok := constant.Int64Val(c.Value)
	return ok && x == n
}

// terminatorEdge: edge k of b is taken only when a received item is the terminator (index == -1), the channel is
// closed (comma-ok false), or (allowDefault) a non-blocking select found the channel empty.
func terminatorEdge(b *ssa.BasicBlock, k int, allowDefault bool) bool {
	c, neg := condOf(b)
	if c == nil {
		return false
	}
	trueEdge := (k == 0) != neg
	switch x := c.(type) {
	case *ssa.BinOp:
		if x.Op == token.EQL && (isConstInt(x.Y, -1) || isConstInt(x.X, -1)) {
			return trueEdge
		}
		if x.Op == token.NEQ && (isConstInt(x.Y, -1) || isConstInt(x.X, -1)) {
			return !trueEdge
		}
		// select index test: `sel#0 == 0` false edge = default taken
		if allowDefault && x.Op == token.EQL {
			if ex, ok := x.X.(*ssa.Extract); ok && ex.Index == 0 {
				if sel, ok := ex.Tuple.(*ssa.Select); ok && !sel.Blocking {
					return !trueEdge
				}
			}
		}
	case *ssa.Extract:
		// comma-ok of a receive
		if u, ok := x.Tuple.(*ssa.UnOp); ok && u.Op == token.ARROW && u.CommaOk && x.Index == 1 {
			return !trueEdge
		}
	}
	return false
}

func (e *Eng) pipeline() {
	props := []string{"C07"}
	const ch = "indexChans"
	// ---- single producer / single consumer
	var senders, receivers []string
	for _, fn := range e.allFuncs() {
		if len(find(fn, isSendOn(ch))) > 0 {
			senders = append(senders, funcKey(fn))
		}
		if len(find(fn, isRecvOn(ch))) > 0 {
			receivers = append(receivers, funcKey(fn))
		}
	}
	senders, receivers = uniq(senders), uniq(receivers)
	e.add("spsc#single-producer", "package", props, len(senders) > 0 && onlyIn(senders, "(*internalParsedJson).findStructuralIndices"),
		"functions sending on indexChans: "+strings.Join(senders, ", "))
	e.add("spsc#single-consumer", "package", props, len(receivers) > 0 && onlyIn(receivers, "updateChar", "updateCharDebug", "(*internalParsedJson).parseMessage", "(*internalParsedJson).parseMessage$1"),
		"functions receiving from indexChans: "+strings.Join(receivers, ", ")+" (updateChar runs in stage 2 only; the parseMessage receives are the failure drains, which run when stage 2 has stopped consuming)")

	// ---- producer: a fresh slot (AddUint64(&buffersOffset,1) % indexSlots) is acquired before every non-terminator send,
	// and between two such sends
	fsi := e.fn("(*internalParsedJson).findStructuralIndices")
	if fsi != nil {
		slots := int64(-1)
		if c, ok := e.pkg.Members["indexSlots"].(*ssa.NamedConst); ok && c.Value.Value != nil {
			slots = c.Value.Int64()
		}
		isAcquire := func(in ssa.Instruction) bool {
			c, ok := in.(*ssa.Call)
			if !ok || calleeName(&c.Call) != "atomic.AddUint64" || len(c.Call.Args) != 2 || !isConstInt(c.Call.Args[1], 1) {
				return false
			}
			fa, ok := c.Call.Args[0].(*ssa.FieldAddr)
			if !ok {
				return false
			}
			s := fa.X.Type().Underlying().(*types.Pointer).Elem().Underlying().(*types.Struct)
			return s.Field(fa.Field).Name() == "buffersOffset"
		}
		isData := func(in ssa.Instruction) bool {
			s, ok := in.(*ssa.Send)
			return ok && chanField(s.Chan, ch) && !e.sendsTerminator(s)
		}
		acq := find(fsi, isAcquire)
		data := find(fsi, isData)
		ok := len(acq) > 0 && len(data) > 0
		detail := fmt.Sprintf("%d acquire sites, %d data sends", len(acq), len(data))
		if ok {
			entry := ipos{fsi.Blocks[0], -1}
			if r, w := reachWithout(entry, isData, isAcquire); r {
				ok, detail = false, "a data send at "+e.pos(w)+" is reachable without acquiring a slot"
			}
		}
		if ok {
			for _, d := range data {
				if r, w := reachWithout(d, isData, isAcquire); r {
					ok, detail = false, "two data sends ("+e.pos(d.b.Instrs[d.i])+", "+e.pos(w)+") without a slot acquisition between them: the same ring slot would be handed over twice"
					break
				}
			}
		}
		e.add("slot#fresh-per-send", funcKey(fsi), props, ok, detail)
		// the slot used is buffers[offset % indexSlots] and it is the one sent
		ok2, det2 := false, "pattern index.indexes = &pj.buffers[offset%indexSlots] not found"
		for _, a := range acq {
			call := a.b.Instrs[a.i].(*ssa.Call)
			for _, r := range *call.Referrers() {
				rem, isBin := r.(*ssa.BinOp)
				if !isBin || rem.Op != token.REM || rem.X != ssa.Value(call) || !isConstInt(rem.Y, slots) {
					continue
				}
				for _, r2 := range *rem.Referrers() {
					ia, isIA := r2.(*ssa.IndexAddr)
					if !isIA {
						continue
					}
					fa, isFA := ia.X.(*ssa.FieldAddr)
					if !isFA {
						continue
					}
					s := fa.X.Type().Underlying().(*types.Pointer).Elem().Underlying().(*types.Struct)
					if s.Field(fa.Field).Name() != "buffers" {
						continue
					}
					// stored into the .indexes field of the local item that is sent
					for _, r3 := range *ia.Referrers() {
						st, isSt := r3.(*ssa.Store)
						if !isSt || st.Val != ssa.Value(ia) {
							continue
						}
						if dst, isF := st.Addr.(*ssa.FieldAddr); isF {
							if al, isAl := dst.X.(*ssa.Alloc); isAl {
								for _, d := range data {
									if ld, isLd := d.b.Instrs[d.i].(*ssa.Send).X.(*ssa.UnOp); isLd && ld.X == ssa.Value(al) {
										ok2, det2 = true, fmt.Sprintf("slot = AddUint64(&buffersOffset,1) %% %d; the item sent carries &buffers[slot]", slots)
									}
								}
							}
						}
					}
				}
			}
		}
		e.add("slot#ring-index", funcKey(fsi), props, ok2, det2)
	}

	// ---- consumer: updateChar receives only when the current buffer is used up (index >= length), so the consumer
	// holds exactly one buffer and the channel-capacity argument (ring#slots-exceed-window) applies
	for _, name := range []string{"updateChar"} {
		uc := e.fn(name)
		if uc == nil {
			e.add("recv#only-when-exhausted", name, props, false, "function not found")
			continue
		}
		rs := find(uc, isRecvOn(ch))
		ok := len(rs) == 1
		detail := fmt.Sprintf("%d receive sites", len(rs))
		if ok {
			// the receive is only reachable over the true edge of `index >= length` (or false edge of `index < length`)
			guard := func(b *ssa.BasicBlock, k int) bool {
				c, neg := condOf(b)
				bin, isBin := c.(*ssa.BinOp)
				if !isBin {
					return true
				}
				fld := func(v ssa.Value) string {
					if u, ok := v.(*ssa.UnOp); ok && u.Op == token.MUL {
						if fa, ok := u.X.(*ssa.FieldAddr); ok {
							if p, ok := fa.X.Type().Underlying().(*types.Pointer); ok {
								if s, ok := p.Elem().Underlying().(*types.Struct); ok {
									return s.Field(fa.Field).Name()
								}
							}
						}
					}
					return ""
				}
				x, y := fld(bin.X), fld(bin.Y)
				trueEdge := (k == 0) != neg
				exhaustedOnTrue := (bin.Op == token.GEQ && x == "index" && y == "length") || (bin.Op == token.LEQ && x == "length" && y == "index")
				exhaustedOnFalse := (bin.Op == token.LSS && x == "index" && y == "length") || (bin.Op == token.GTR && x == "length" && y == "index")
				if exhaustedOnTrue {
					return !trueEdge // only follow the NOT-exhausted edge: the receive must be unreachable this way
				}
				if exhaustedOnFalse {
					return trueEdge
				}
				return true
			}
			entry := ipos{uc.Blocks[0], -1}
			if r, w := reachEdges(entry, isRecvOn(ch), func(ssa.Instruction) bool { return false }, guard); r {
				ok, detail = false, "the receive at "+e.pos(w)+" is reachable while the current buffer still has entries (index < length)"
			} else {
				detail = "the only receive is guarded by indexesChan.index >= indexesChan.length"
			}
		}
		e.add("recv#only-when-exhausted", name, props, ok, detail)
	}

	// ---- stage 2 failing early keeps receiving until the terminator, so stage 1 can never block forever on a full channel
	cl := e.fn("(*internalParsedJson).parseMessage$1")
	if cl == nil {
		e.add("drain#stage2-failure", "(*internalParsedJson).parseMessage$1", props, false, "stage-2 goroutine body not found")
	} else {
		e.drain(cl, "drain#stage2-failure", props, false)
	}
	// ---- the synchronous path leaves the channel empty as well (C15: the channel is reused by the next Parse)
	if pm := e.fn("(*internalParsedJson).parseMessage"); pm != nil {
		e.drainSync(pm)
	}
}

// drain: after unifiedMachine returned (ok=false, done=false) every path to a return goes through a receive loop on
// indexChans whose only exits are the terminator / closed-channel edges.
func (e *Eng) drain(fn *ssa.Function, name string, props []string, allowDefault bool) {
	calls := find(fn, isCall("(*internalParsedJson).unifiedMachine"))
	if len(calls) != 1 {
		e.add(name, funcKey(fn), props, false, fmt.Sprintf("%d calls of unifiedMachine", len(calls)))
		return
	}
	call := calls[0].b.Instrs[calls[0].i].(*ssa.Call)
	var okv, donev ssa.Value
	for _, r := range *call.Referrers() {
		if ex, isEx := r.(*ssa.Extract); isEx {
			if ex.Index == 0 {
				okv = ex
			} else if ex.Index == 1 {
				donev = ex
			}
		}
	}
	// edges on which ok or done is true need no drain
	needDrain := func(b *ssa.BasicBlock, k int) bool {
		c, neg := condOf(b)
		if c == nil {
			return true
		}
		trueEdge := (k == 0) != neg
		if (okv != nil && c == okv) || (donev != nil && c == donev) {
			return !trueEdge
		}
		return true
	}
	recv := isRecvOn("indexChans")
	if r, w := reachEdges(calls[0], isReturn(), recv, needDrain); r {
		e.add(name, funcKey(fn), props, false, "when stage 2 fails before the terminator (ok=false, done=false) the return at "+e.pos(w)+" is reachable without receiving from indexChans: stage 1 would block on a full channel")
		return
	}
	rs := find(fn, recv)
	for _, rp := range rs {
		noTerm := func(b *ssa.BasicBlock, k int) bool { return !terminatorEdge(b, k, allowDefault) }
		if r, w := reachEdges(rp, isReturn(), func(ssa.Instruction) bool { return false }, noTerm); r {
			e.add(name, funcKey(fn), props, false, "the drain loop at "+e.pos(rp.b.Instrs[rp.i])+" can be left for the return at "+e.pos(w)+" before the terminator was received")
			return
		}
	}
	e.add(name, funcKey(fn), props, true, fmt.Sprintf("%d receive sites; loop exits only on index == -1 or a closed channel", len(rs)))
}

// drainSync: in parseMessage itself (synchronous path) a failing findStructuralIndices or unifiedMachine is followed by
// a drain that stops only at the terminator (or, after stage 1 has returned, at an empty channel).
func (e *Eng) drainSync(pm *ssa.Function) {
	props := []string{"C15", "C07"}
	recv := isRecvOn("indexChans")
	fsis := find(pm, isCall("(*internalParsedJson).findStructuralIndices"))
	ok := true
	detail := ""
	nSync := 0
	for _, c := range fsis {
		call := c.b.Instrs[c.i].(*ssa.Call)
		// only the call that is not concurrent with a goroutine: no Go instruction reaches it
		conc := false
		for _, g := range find(pm, isGo()) {
			target := func(in ssa.Instruction) bool { return in == ssa.Instruction(call) }
			if r, _ := reachWithout(g, target, func(ssa.Instruction) bool { return false }); r {
				conc = true
			}
		}
		if conc {
			continue
		}
		nSync++
		failEdge := func(b *ssa.BasicBlock, k int) bool {
			c, neg := condOf(b)
			if c == ssa.Value(call) {
				return (k == 0) == neg // follow only the edge on which the call returned false
			}
			return true
		}
		// from the failing call: return unreachable without a receive, unless unifiedMachine (which consumes) runs
		blockers := or(recv, isCall("(*internalParsedJson).unifiedMachine"))
		if r, w := reachEdges(c, isReturn(), blockers, failEdge); r {
			ok, detail = false, "stage 1 failed in the synchronous path and the return at "+e.pos(w)+" is reached without draining indexChans (stale items would be read by the next Parse)"
		}
	}
	if nSync == 0 {
		ok, detail = false, "no synchronous call of findStructuralIndices found"
	}
	if ok {
		for _, rp := range find(pm, recv) {
			noTerm := func(b *ssa.BasicBlock, k int) bool { return !terminatorEdge(b, k, true) }
			if r, w := reachEdges(rp, isReturn(), func(ssa.Instruction) bool { return false }, noTerm); r {
				ok, detail = false, "the drain at "+e.pos(rp.b.Instrs[rp.i])+" can be left for the return at "+e.pos(w)+" before the terminator / an empty channel"
				break
			}
		}
	}
	if ok {
		// the synchronous unifiedMachine failure path
		for _, c := range find(pm, isCall("(*internalParsedJson).unifiedMachine")) {
			call := c.b.Instrs[c.i].(*ssa.Call)
			var okv ssa.Value
			for _, r := range *call.Referrers() {
				if ex, isEx := r.(*ssa.Extract); isEx && ex.Index == 0 {
					okv = ex
				}
			}
			failEdge := func(b *ssa.BasicBlock, k int) bool {
				c, neg := condOf(b)
				if okv != nil && c == okv {
					return (k == 0) == neg
				}
				return true
			}
			if r, w := reachEdges(c, isReturn(), recv, failEdge); r {
				ok, detail = false, "stage 2 failed in the synchronous path and the return at "+e.pos(w)+" is reached without draining indexChans"
			}
		}
	}
	if ok {
		detail = fmt.Sprintf("%d synchronous stage-1 call(s); every failure path receives until the terminator or an empty channel", nSync)
	}
	e.add("drain#sync-failure", funcKey(pm), props, ok, detail)
}

// sharedVars: a variable captured by a goroutine closure and written there is not touched by the parent between
// the go statement and the join (WaitGroup.Wait) on any path: otherwise the result depends on the schedule (C07)
// and the accesses race (C20).
func (e *Eng) sharedVars() {
	props := []string{"C07", "C20"}
	nshared := map[string]int{}
	for _, fn := range e.allFuncs() {
		for _, g := range find(fn, isGo()) {
			goi := g.b.Instrs[g.i].(*ssa.Go)
			mc, ok := goi.Call.Value.(*ssa.MakeClosure)
			if !ok {
				continue
			}
			cl := mc.Fn.(*ssa.Function)
			// free variables written by the closure (directly)
			written := map[ssa.Value]string{}
			for k, fv := range cl.FreeVars {
				for _, r := range *fv.Referrers() {
					if st, ok := r.(*ssa.Store); ok && st.Addr == ssa.Value(fv) {
						written[mc.Bindings[k]] = fv.Name()
					}
				}
			}
			if len(written) == 0 {
				continue
			}
			touches := func(in ssa.Instruction) bool {
				switch x := in.(type) {
				case *ssa.Store:
					_, w := written[x.Addr]
					return w
				case *ssa.UnOp:
					if x.Op == token.MUL {
						_, w := written[x.X]
						return w
					}
				}
				return false
			}
			join := or(isCall("(*sync.WaitGroup).Wait"), isDefer("(*sync.WaitGroup).Wait"))
			var names []string
			for _, n := range written {
				names = append(names, n)
			}
			nshared[funcKey(fn)]++
			name := fmt.Sprintf("shared#parent-waits-before-touching.%d", nshared[funcKey(fn)])
			if r, w := reachWithout(g, touches, join); r {
				e.add(name, funcKey(fn), props, false, fmt.Sprintf("variable written by the goroutine started at %s is accessed by the parent at %s before the join", e.pos(goi), e.pos(w)))
			} else {
				e.add(name, funcKey(fn), props, true, "goroutine at "+e.pos(goi)+" writes captured "+strings.Join(uniq(names), ",")+"; the parent does not touch them before Wait")
			}
		}
	}
}

// isEOFCompare: v is `x != io.EOF` / `x == io.EOF`; returns the operator
func isEOFCompare(v ssa.Value) (token.Token, bool) {
	b, ok := v.(*ssa.BinOp)
	if !ok || (b.Op != token.NEQ && b.Op != token.EQL) {
		return 0, false
	}
	isEOF := func(x ssa.Value) bool {
		u, ok := x.(*ssa.UnOp)
		if !ok || u.Op != token.MUL {
			return false
		}
		g, ok := u.X.(*ssa.Global)
		return ok && g.Name() == "EOF" && g.Pkg != nil && g.Pkg.Pkg.Path() == "io"
	}
	if isEOF(b.X) || isEOF(b.Y) {
		return b.Op, true
	}
	return 0, false
}

// ndstreamChunks (C09): every chunk handed to a worker ends at a line boundary or at the end of the input, and the
// forwarder blocks on delivery until an error item has been delivered.
func (e *Eng) ndstreamChunks() {
	props := []string{"C09"}
	reader := e.ndRole("reader")
	if reader != nil {
		reads := find(reader, isCall("(*bufio.Reader).Read"))
		okc, detail := len(reads) == 1, fmt.Sprintf("%d calls of buf.Read", len(reads))
		if okc {
			// from the Read, a worker start (go) is reachable without ReadBytes only over the edge "err == io.EOF"
			notEOFEdge := func(b *ssa.BasicBlock, k int) bool {
				c, neg := condOf(b)
				if c == nil {
					return true
				}
				op, isCmp := isEOFCompare(c)
				if !isCmp {
					return true
				}
				trueEdge := (k == 0) != neg
				eofEdge := (op == token.EQL) == trueEdge
				return !eofEdge // block the edges on which the error IS io.EOF
			}
			if r, w := reachEdges(reads[0], isGo(), isCall("(*bufio.Reader).ReadBytes"), notEOFEdge); r {
				okc, detail = false, "a worker is started at "+e.pos(w)+" on a chunk that was not extended to the next newline although the input has not ended (err != io.EOF)"
			} else {
				detail = "after buf.Read the chunk is extended with ReadBytes('\\n') on every path except err == io.EOF"
			}
			// and the delimiter is '\n'
			for _, rb := range find(reader, isCall("(*bufio.Reader).ReadBytes")) {
				c := rb.b.Instrs[rb.i].(*ssa.Call)
				if len(c.Call.Args) < 2 || !isConstInt(c.Call.Args[1], '\n') {
					okc, detail = false, "ReadBytes delimiter is not '\\n'"
				}
			}
		}
		e.add("reader#chunk-ends-at-newline-or-eof", funcKey(reader), props, okc, detail)
	}
	fwd := e.ndRole("forwarder")
	if fwd != nil {
		// the item receive: <-items where items is itself received from the queue
		var item ipos
		found := false
		for _, p := range find(fwd, func(in ssa.Instruction) bool {
			u, ok := in.(*ssa.UnOp)
			if !ok || u.Op != token.ARROW || u.CommaOk {
				return false
			}
			_, fromTuple := u.X.(*ssa.Extract)
			return fromTuple
		}) {
			item, found = p, true
		}
		okc, detail := found, "item receive not found"
		if found {
			// (a) every received item is offered on res before the next one is taken
			offer := func(in ssa.Instruction) bool {
				switch x := in.(type) {
				case *ssa.Send:
					return true
				case *ssa.Select:
					for _, s := range x.States {
						if s.Dir == types.SendOnly {
							return true
						}
					}
				}
				return false
			}
			self := item.b.Instrs[item.i]
			again := func(in ssa.Instruction) bool { return in == self }
			if r, _ := reachWithout(item, or(again, isReturn()), offer); r {
				okc, detail = false, "an item can be dropped: the next receive / return is reachable without offering it on res"
			}
			// (b) a blocking send is skipped only on a flag that was decided by EARLIER items: the condition guarding the
			// blocking send is a value defined in a block that dominates the item receive
			if okc {
				sends := find(fwd, isSend())
				if len(sends) == 0 {
					okc, detail = false, "no blocking send on res"
				}
				for _, s := range sends {
					guardOK := false
					for _, pred := range s.b.Preds {
						c, _ := condOf(pred)
						if c == nil {
							continue
						}
						if in, isIn := c.(ssa.Instruction); isIn {
							if in.Block() != item.b && in.Block().Dominates(item.b) {
								guardOK = true
							}
						}
					}
					if !guardOK {
						okc, detail = false, "the blocking delivery at "+e.pos(s.b.Instrs[s.i])+" is guarded by a value computed from the current item: its own error could make it non-blocking and be dropped"
					}
				}
			}
			if okc {
				detail = "every item is offered; delivery blocks unless an EARLIER item carried an error"
			}
		}
		e.add("forwarder#first-error-delivered", funcKey(fwd), props, okc, detail)
	}
	// C08/C01: in stage 2 a new root is opened (or the parse continued) after a finished document only when the next
	// structural character is a newline
	um := e.fn("(*internalParsedJson).unifiedMachine")
	if um != nil {
		// the If testing buf[idx] != '\n' (or ==)
		isNLTest := func(b *ssa.BasicBlock) (token.Token, bool) {
			c, _ := condOf(b)
			bin, ok := c.(*ssa.BinOp)
			if !ok || (bin.Op != token.NEQ && bin.Op != token.EQL) {
				return 0, false
			}
			if !(isConstInt(bin.Y, '\n') || isConstInt(bin.X, '\n')) {
				return 0, false
			}
			return bin.Op, true
		}
		// root-closing writes: write_tape(x, 'r') calls other than the first one in the entry block
		var rootWrites []ipos
		for _, p := range find(um, isCall("(*ParsedJson).write_tape")) {
			c := p.b.Instrs[p.i].(*ssa.Call)
			// opening writes only: write_tape(0, 'r') -- the closing root write carries the scope offset
			if len(c.Call.Args) == 3 && isConstInt(c.Call.Args[2], 'r') && isConstInt(c.Call.Args[1], 0) && p.b != um.Blocks[0] {
				rootWrites = append(rootWrites, p)
			}
		}
		okc := len(rootWrites) > 0
		detail := fmt.Sprintf("%d root writes after the start state", len(rootWrites))
		// every path from an updateChar call to such a root write crosses the "is a newline" edge of a newline test
		nonNL := func(b *ssa.BasicBlock, k int) bool {
			op, isT := isNLTest(b)
			if !isT {
				return true
			}
			_, neg := condOf(b)
			trueEdge := (k == 0) != neg
			nlEdge := (op == token.EQL) == trueEdge
			return !nlEdge
		}
		if okc {
			isRW := func(in ssa.Instruction) bool {
				for _, p := range rootWrites {
					if p.b.Instrs[p.i] == in {
						return true
					}
				}
				return false
			}
			entry := ipos{um.Blocks[0], -1}
			if r, w := reachEdges(entry, isRW, func(ssa.Instruction) bool { return false }, nonNL); r {
				okc, detail = false, "a root is closed / a new root opened at "+e.pos(w)+" on a path that never saw a newline as the structural character after the previous document"
			} else {
				detail += "; each is reachable only over the newline edge of `buf[idx] == '\\n'`"
			}
		}
		e.add("roots#separated-by-newline", funcKey(um), []string{"C08", "C01"}, okc, detail)
	}
}

// stage1State (C01, C04, C06): the state carried across 64-byte blocks and across index buffers lives in variables of
// findStructuralIndices that are passed by address to the kernels. They must be allocated once, before the loop (a
// variable declared inside the loop would reset the carry at every index-buffer hand-over), and start in the initial
// state of the S5 specification: not inside a string, no dangling backslash, no error, the byte before the document
// counts as white space (pseudo-structural predecessor = 1), nothing carried in the flattener.
func (e *Eng) stage1State() {
	props := []string{"C01", "C04", "C06"}
	fn := e.fn("(*internalParsedJson).findStructuralIndices")
	if fn == nil {
		e.add("stage1#carried-state", "(*internalParsedJson).findStructuralIndices", props, false, "function not found")
		return
	}
	// by position in the kernel's parameter list (names of the driver's locals are free to change):
	// (buf, &odd_backslash, &inside_quote, &error_mask, &pseudo_pred, indexes, &length, &carried, &position, ndjson)
	wantPos := map[int]int64{1: 0, 2: 0, 3: 0, 4: 1, 7: 0}
	posName := map[int]string{1: "odd-backslash carry", 2: "inside-quote carry", 3: "error mask", 4: "pseudo-structural predecessor", 7: "flatten carry"}
	calls := find(fn, or(isCall("find_structural_bits_in_slice"), isCall("find_structural_bits_in_slice_avx512")))
	ok, detail := len(calls) > 0, fmt.Sprintf("%d kernel calls", len(calls))
	seen := map[string]bool{}
	for _, c := range calls {
		call := c.b.Instrs[c.i].(*ssa.Call)
		for k, a := range call.Call.Args {
			w, tracked := wantPos[k]
			if !tracked {
				continue
			}
			name := posName[k]
			al, isAl := a.(*ssa.Alloc)
			if !isAl {
				ok, detail = false, name+" is not passed as the address of a local variable at "+e.pos(call)
				continue
			}
			seen[name] = true
			if al.Block() != fn.Blocks[0] {
				ok, detail = false, fmt.Sprintf("%s is allocated inside the loop (block %d): the carried state is reset at every index-buffer hand-over", name, al.Block().Index)
				continue
			}
			// initial store in the entry block
			init := int64(-12345)
			for _, r := range *al.Referrers() {
				if st, isSt := r.(*ssa.Store); isSt && st.Addr == ssa.Value(al) && st.Block() == fn.Blocks[0] {
					if cst, isC := st.Val.(*ssa.Const); isC && cst.Value != nil {
						init = cst.Int64()
					}
				}
			}
			if init == -12345 {
				init = 0 // zero value of a fresh allocation
			}
			if init != w {
				ok, detail = false, fmt.Sprintf("%s starts at %d, the S5 initial state is %d", name, init, w)
			}
		}
	}
	for _, name := range posName {
		if !seen[name] && ok {
			ok, detail = false, "state variable "+name+" is not passed to the kernels by address"
		}
	}
	if ok {
		detail = "odd-backslash, inside-quote, error mask, pseudo-predecessor (=1) and flatten carry are allocated once before the loop with the S5 initial values"
	}
	e.add("stage1#carried-state", funcKey(fn), props, ok, detail)
}

// ndstreamMore (C09, C20): the stream worker parses into a parser object of its own (a local of the worker, not an
// object recycled through a pool: a delivered result shares the parser's buffers); bytes that arrive together with
// io.EOF are still handed over (after buf.Read the reader only gives up early on an error that is NOT io.EOF).
func (e *Eng) ndstreamMore() {
	worker := e.ndRole("worker")
	if worker != nil {
		ok, detail := false, "parseMessage call not found in the worker"
		for _, p := range find(worker, isCall("(*internalParsedJson).parseMessage")) {
			c := p.b.Instrs[p.i].(*ssa.Call)
			if al, isAl := c.Call.Args[0].(*ssa.Alloc); isAl && al.Parent() == worker {
				ok, detail = true, "the worker parses into its own local internalParsedJson"
			} else {
				ok, detail = false, "the worker's parser object at "+e.pos(c)+" is not a local of the worker (recycled objects share buffers with results already delivered)"
			}
		}
		e.add("worker#own-parser-object", funcKey(worker), []string{"C09", "C15", "C20"}, ok, detail)
	}
	reader := e.ndRole("reader")
	if reader != nil {
		reads := find(reader, isCall("(*bufio.Reader).Read"))
		ok, detail := len(reads) == 1, fmt.Sprintf("%d calls of buf.Read", len(reads))
		if ok {
			// edges on which the error is known NOT to be io.EOF are the only way to an early return
			eofPossible := func(b *ssa.BasicBlock, k int) bool {
				c, neg := condOf(b)
				if c == nil {
					return true
				}
				op, isCmp := isEOFCompare(c)
				if !isCmp {
					return true
				}
				trueEdge := (k == 0) != neg
				notEOFEdge := (op == token.NEQ) == trueEdge
				return !notEOFEdge
			}
			// the chunk counts as handed over once its length has been looked at (`if len(tmp) > 0`) or a worker started
			lenTest := func(in ssa.Instruction) bool {
				b, ok := in.(*ssa.BinOp)
				if !ok || b.Op != token.GTR || !isConstInt(b.Y, 0) {
					return false
				}
				c, ok := b.X.(*ssa.Call)
				if !ok {
					return false
				}
				bi, ok := c.Call.Value.(*ssa.Builtin)
				return ok && bi.Name() == "len"
			}
			handedOver := or(isGo(), lenTest, isCall("(*bufio.Reader).ReadBytes"))
			if r, w := reachEdges(reads[0], isReturn(), handedOver, eofPossible); r {
				ok, detail = false, "after buf.Read the reader can return at "+e.pos(w)+" although the error may be io.EOF: bytes delivered together with io.EOF would be dropped"
			} else {
				detail = "an early return after buf.Read is only possible for an error other than io.EOF"
			}
		}
		e.add("reader#eof-bytes-kept", funcKey(reader), []string{"C09"}, ok, detail)
	}
	// the shared zstd decoder is only used through DecodeAll (documented as safe for concurrent use)
	var bad []string
	n := 0
	for _, fn := range e.allFuncs() {
		for _, b := range fn.Blocks {
			for _, in := range b.Instrs {
				c := callCommon(in)
				if c == nil || len(c.Args) == 0 {
					continue
				}
				ld, isLd := c.Args[0].(*ssa.UnOp)
				if !isLd {
					continue
				}
				g, isG := ld.X.(*ssa.Global)
				if !isG || g.Name() != "zDec" {
					continue
				}
				n++
				if cn := calleeName(c); !strings.HasSuffix(cn, ".DecodeAll") {
					bad = append(bad, cn+" at "+e.pos(in))
				}
			}
		}
	}
	e.add("global#zDec-only-DecodeAll", "package", []string{"C20"}, n > 0 && len(bad) == 0,
		fmt.Sprintf("%d uses of the shared decoder; stateful (streaming) uses: %s", n, strings.Join(bad, ", ")))
}

// ndRole finds the goroutine bodies of ParseNDStream by what they do, not by their ordinal among the anonymous
// functions (inserting another closure must not move the obligations): the reader calls bufio.Reader.Read, the worker
// calls parseMessage, the forwarder receives from a channel of channels.
func (e *Eng) ndRole(role string) *ssa.Function {
	f := e.ndRoleQuiet(role)
	if f == nil {
		e.errs = append(e.errs, "ParseNDStream: goroutine body with role "+role+" not found")
	}
	return f
}

func (e *Eng) ndRoleQuiet(role string) *ssa.Function {
	var found *ssa.Function
	for _, fn := range e.allFuncs() {
		top := fn
		for top.Parent() != nil {
			top = top.Parent()
		}
		if top.Name() != "ParseNDStream" || fn == top {
			continue
		}
		switch role {
		case "reader":
			if len(find(fn, isCall("(*bufio.Reader).Read"))) > 0 {
				found = fn
			}
		case "worker":
			if len(find(fn, isCall("(*internalParsedJson).parseMessage"))) > 0 {
				found = fn
			}
		case "forwarder":
			for _, p := range find(fn, func(in ssa.Instruction) bool {
				u, ok := in.(*ssa.UnOp)
				if !ok || u.Op != token.ARROW {
					return false
				}
				ch, isCh := u.X.Type().Underlying().(*types.Chan)
				if !isCh {
					return false
				}
				_, inner := ch.Elem().Underlying().(*types.Chan)
				return inner
			}) {
				_ = p
				found = fn
			}
		}
	}
	return found
}

// filterNotMutated (C12): the key-filter map a caller passes to Object.ForEach / Object.DeleteElems is only read: a
// callee that deletes from or stores into it changes what the next call with the same filter reports.
func (e *Eng) filterNotMutated() {
	for _, key := range []string{"(*Object).ForEach", "(*Object).DeleteElems"} {
		fn := e.fn(key)
		if fn == nil {
			continue
		}
		var mp *ssa.Parameter
		for _, p := range fn.Params {
			if _, isMap := p.Type().Underlying().(*types.Map); isMap {
				mp = p
			}
		}
		if mp == nil {
			e.add("filter#not-mutated", key, []string{"C12"}, false, "no map parameter found")
			continue
		}
		bad := ""
		for _, b := range fn.Blocks {
			for _, in := range b.Instrs {
				switch x := in.(type) {
				case *ssa.MapUpdate:
					if x.Map == ssa.Value(mp) {
						bad = "stores into the filter map at " + e.pos(in)
					}
				case *ssa.Call:
					if bi, ok := x.Call.Value.(*ssa.Builtin); ok && (bi.Name() == "delete" || bi.Name() == "clear") && len(x.Call.Args) > 0 && x.Call.Args[0] == ssa.Value(mp) {
						bad = bi.Name() + " on the filter map at " + e.pos(in)
					}
				}
			}
		}
		e.add("filter#not-mutated", key, []string{"C12"}, bad == "", "the caller's onlyKeys map is only read "+bad)
	}
}

// ssaSame: structural equality of two SSA values (same constants, same operators over equal operands, loads of the same
// field of the same object, the same allocation).
func ssaSame(a, b ssa.Value, depth int) bool {
	if a == b {
		return true
	}
	if depth > 8 {
		return false
	}
	switch x := a.(type) {
	case *ssa.Const:
		y, ok := b.(*ssa.Const)
		if !ok {
			return false
		}
		if x.Value == nil || y.Value == nil {
			return x.Value == nil && y.Value == nil
		}
		return constant.Compare(x.Value, token.EQL, y.Value)
	case *ssa.UnOp:
		y, ok := b.(*ssa.UnOp)
		return ok && x.Op == y.Op && ssaSame(x.X, y.X, depth+1)
	case *ssa.BinOp:
		y, ok := b.(*ssa.BinOp)
		return ok && x.Op == y.Op && ssaSame(x.X, y.X, depth+1) && ssaSame(x.Y, y.Y, depth+1)
	case *ssa.FieldAddr:
		y, ok := b.(*ssa.FieldAddr)
		return ok && x.Field == y.Field && ssaSame(x.X, y.X, depth+1)
	case *ssa.IndexAddr:
		y, ok := b.(*ssa.IndexAddr)
		return ok && ssaSame(x.X, y.X, depth+1) && ssaSame(x.Index, y.Index, depth+1)
	case *ssa.Slice:
		y, ok := b.(*ssa.Slice)
		if !ok || !ssaSame(x.X, y.X, depth+1) {
			return false
		}
		same := func(p, q ssa.Value) bool {
			if p == nil || q == nil {
				return p == nil && q == nil
			}
			return ssaSame(p, q, depth+1)
		}
		return same(x.Low, y.Low) && same(x.High, y.High) && same(x.Max, y.Max)
	case *ssa.Convert:
		y, ok := b.(*ssa.Convert)
		return ok && types.Identical(x.Type(), y.Type()) && ssaSame(x.X, y.X, depth+1)
	case *ssa.Call:
		y, ok := b.(*ssa.Call)
		if !ok || calleeName(&x.Call) != calleeName(&y.Call) || calleeName(&x.Call) == "" || len(x.Call.Args) != len(y.Call.Args) {
			return false
		}
		if bi, isB := x.Call.Value.(*ssa.Builtin); !isB || (bi.Name() != "len" && bi.Name() != "cap") {
			return false
		}
		for i := range x.Call.Args {
			if !ssaSame(x.Call.Args[i], y.Call.Args[i], depth+1) {
				return false
			}
		}
		return true
	}
	return false
}

// familiesSameArguments (C06): wherever stage 1 chooses between the AVX2 and the AVX-512 kernel, both calls receive the
// same arguments (the kernels are proved equivalent on equal inputs; the Go driver must not feed them differently).
func (e *Eng) familiesSameArguments() {
	fn := e.fn("(*internalParsedJson).findStructuralIndices")
	if fn == nil {
		return
	}
	a2 := find(fn, isCall("find_structural_bits_in_slice"))
	a5 := find(fn, isCall("find_structural_bits_in_slice_avx512"))
	ok, detail := len(a2) > 0 && len(a2) == len(a5), fmt.Sprintf("%d AVX2 and %d AVX-512 call sites", len(a2), len(a5))
	if ok {
		for i := range a2 {
			c2 := a2[i].b.Instrs[a2[i].i].(*ssa.Call)
			// the partner: the AVX-512 call in the sibling branch (same immediate dominator)
			var c5 *ssa.Call
			for _, p := range a5 {
				if p.b.Idom() == a2[i].b.Idom() {
					c5 = p.b.Instrs[p.i].(*ssa.Call)
				}
			}
			if c5 == nil {
				ok, detail = false, "AVX2 call at "+e.pos(c2)+" has no AVX-512 counterpart in the sibling branch"
				break
			}
			for k := range c2.Call.Args {
				if k >= len(c5.Call.Args) || !ssaSame(c2.Call.Args[k], c5.Call.Args[k], 0) {
					ok, detail = false, fmt.Sprintf("argument %d differs between the AVX2 call at %s and the AVX-512 call at %s", k, e.pos(c2), e.pos(c5))
				}
			}
		}
	}
	if ok {
		detail += "; each pair receives structurally identical arguments"
	}
	e.add("stage1#families-same-arguments", funcKey(fn), []string{"C06"}, ok, detail)
}

// reviewedGlobals (C20, C15): the package-level variables are exactly the reviewed set listed in the contract file
// (`//@ globals ...`): tables, error values, sync objects and codec pools. A new package-level variable is shared by
// every parser / serializer in the process and must be reviewed before the independence argument holds.
func (e *Eng) reviewedGlobals() {
	want := map[string]bool{}
	if f, err := os.Open(filepath.Join(e.repo, "verif_contracts.go")); err == nil {
		sc := bufio.NewScanner(f)
		sc.Buffer(make([]byte, 1<<20), 1<<20)
		for sc.Scan() {
			l := strings.TrimSpace(sc.Text())
			if strings.HasPrefix(l, "//@ globals ") {
				for _, n := range strings.Fields(strings.TrimPrefix(l, "//@ globals ")) {
					want[n] = true
				}
			}
		}
		f.Close()
	}
	var extra, missing, accepted []string
	have := map[string]bool{}
	for name, m := range e.pkg.Members {
		g, ok := m.(*ssa.Global)
		if !ok || strings.HasPrefix(name, "init$") {
			continue
		}
		if g.Pos().IsValid() {
			file := e.fset.Position(g.Pos()).Filename
			if strings.HasSuffix(file, "_test.go") || strings.HasSuffix(file, "verif_contracts.go") {
				continue
			}
		}
		have[name] = true
		if !want[name] {
			// a new variable is accepted without review only if it is a plain value table (no pointers, slices, maps,
			// channels, functions, interfaces, sync objects); stores to it at run time are the business of global#<name>
			if pureValue(g.Type().(*types.Pointer).Elem(), 0) {
				accepted = append(accepted, name)
				continue
			}
			extra = append(extra, name)
		}
	}
	for n := range want {
		if !have[n] {
			missing = append(missing, n)
		}
	}
	sort.Strings(extra)
	sort.Strings(missing)
	e.add("globals#reviewed-set", "package", []string{"C20", "C15"}, len(want) > 0 && len(extra) == 0,
		fmt.Sprintf("%d package-level variables reviewed; not in the reviewed set: %v; new plain value tables accepted: %v; listed but gone: %v", len(want), extra, accepted, missing))
}

// compressModeComplete (C11, C15): CompressMode assigns every configuration field for every mode, so a Serializer's
// output mode does not depend on the mode it had before.
func (e *Eng) compressModeComplete() {
	fn := e.fn("(*Serializer).CompressMode")
	if fn == nil {
		return
	}
	fields := []string{"compValues", "compTags", "compStrings"}
	ok, detail := true, "every path through CompressMode assigns compValues, compTags and compStrings"
	for _, fld := range fields {
		f := fld
		isSet := func(in ssa.Instruction) bool {
			st, isSt := in.(*ssa.Store)
			if !isSt {
				return false
			}
			fa, isFA := st.Addr.(*ssa.FieldAddr)
			if !isFA {
				return false
			}
			s := fa.X.Type().Underlying().(*types.Pointer).Elem().Underlying().(*types.Struct)
			return s.Field(fa.Field).Name() == f
		}
		if r, w := reachWithout(ipos{fn.Blocks[0], -1}, isReturn(), isSet); r {
			ok, detail = false, "a path to the return at "+e.pos(w)+" does not assign "+f+": the field keeps the previous mode's value"
		}
	}
	e.add("config#mode-sets-every-field", funcKey(fn), []string{"C11", "C15"}, ok, detail)
}

// ndstreamErrors (C09): the error the reader goroutine reports is the one it just observed (the argument of queueError
// is the value whose non-nil test guards the call), and the chunk buffer a worker parses is its own: the variable the
// worker closure captures is allocated once per loop iteration, not shared between iterations.
func (e *Eng) ndstreamErrors() {
	reader := e.ndRoleQuiet("reader")
	if reader == nil {
		return
	}
	ok, detail := true, ""
	n := 0
	for _, p := range find(reader, isCall("queueError")) {
		n++
		c := p.b.Instrs[p.i].(*ssa.Call)
		arg := c.Call.Args[1]
		// nearest dominating If that tests some value against nil
		var tested ssa.Value
		for b := p.b; b != nil && tested == nil; b = b.Idom() {
			d := b.Idom()
			if d == nil {
				break
			}
			cnd, _ := condOf(d)
			if bin, isBin := cnd.(*ssa.BinOp); isBin && (bin.Op == token.NEQ || bin.Op == token.EQL) {
				isNil := func(v ssa.Value) bool { k, ok := v.(*ssa.Const); return ok && k.IsNil() }
				if isNil(bin.Y) {
					tested = bin.X
				} else if isNil(bin.X) {
					tested = bin.Y
				}
			}
		}
		if tested == nil || !dependsOn(arg, tested, 0) {
			ok = false
			detail = "queueError at " + e.pos(c) + " is not given the error value whose nil test guards it"
		}
	}
	if ok {
		detail = fmt.Sprintf("%d queueError calls, each forwards the error that was just tested", n)
	}
	e.add("reader#forwards-observed-error", "ParseNDStream.reader", []string{"C09"}, ok && n > 0, detail)
	// per-chunk buffer
	ok, detail = false, "worker start not found"
	for _, g := range find(reader, isGo()) {
		goi := g.b.Instrs[g.i].(*ssa.Go)
		mc, isMC := goi.Call.Value.(*ssa.MakeClosure)
		if !isMC {
			continue
		}
		ok, detail = true, "every slice variable captured by the worker is allocated inside the read loop (one per chunk)"
		for _, bnd := range mc.Bindings {
			al, isAl := bnd.(*ssa.Alloc)
			if !isAl {
				continue
			}
			if _, isSlice := al.Type().Underlying().(*types.Pointer).Elem().Underlying().(*types.Slice); !isSlice {
				continue
			}
			if al.Block() == reader.Blocks[0] {
				ok, detail = false, "the worker started at "+e.pos(goi)+" captures the slice variable "+al.Comment+", which is shared by all iterations of the read loop: a worker may parse a later chunk"
			}
		}
	}
	e.add("reader#chunk-buffer-per-worker", "ParseNDStream.reader", []string{"C09", "C20"}, ok, detail)
}

// dependsOn: v is the value w or is computed from it (wrapped error, converted, passed through a call)
func dependsOn(v, w ssa.Value, depth int) bool {
	if ssaSame(v, w, 0) {
		return true
	}
	if depth > 6 {
		return false
	}
	in, ok := v.(ssa.Instruction)
	if !ok {
		return false
	}
	for _, op := range in.Operands(nil) {
		if *op != nil && dependsOn(*op, w, depth+1) {
			return true
		}
	}
	// values stored into a slice / struct that v reads (variadic arguments of fmt.Errorf): follow stores into allocations
	if sl, isSl := v.(*ssa.Slice); isSl {
		if al, isAl := sl.X.(*ssa.Alloc); isAl {
			for _, r := range *al.Referrers() {
				if ia, isIA := r.(*ssa.IndexAddr); isIA {
					for _, r2 := range *ia.Referrers() {
						if st, isSt := r2.(*ssa.Store); isSt && dependsOn(st.Val, w, depth+1) {
							return true
						}
					}
				}
			}
		}
	}
	return false
}

func pureValue(t types.Type, depth int) bool {
	if depth > 6 {
		return false
	}
	switch u := t.Underlying().(type) {
	case *types.Basic:
		return u.Kind() != types.UnsafePointer
	case *types.Array:
		return pureValue(u.Elem(), depth+1)
	case *types.Struct:
		if n, ok := t.(*types.Named); ok && n.Obj().Pkg() != nil && n.Obj().Pkg().Path() == "sync" {
			return false
		}
		for i := 0; i < u.NumFields(); i++ {
			if !pureValue(u.Field(i).Type(), depth+1) {
				return false
			}
		}
		return true
	}
	return false
}
