// frame: path / frame / global-access obligations over go/ssa of the package as built from the working tree
// (engine E4). Each obligation is a universally quantified statement about all CFG paths of the real
// functions (must-precede, must-follow, exactly-once, reads-before-writes, global write sets), decided by
// exhaustive graph search; no solver involved.
package main

import (
	"encoding/json"
	"flag"
	"fmt"
	"go/token"
	"go/types"
	"os"
	"sort"
	"strings"

	"golang.org/x/tools/go/packages"
	"golang.org/x/tools/go/ssa"
	"golang.org/x/tools/go/ssa/ssautil"
)

type Obl struct {
	ID     string   `json:"id"`
	Name   string   `json:"name"`
	Func   string   `json:"func"`
	Props  []string `json:"props"`
	Status string   `json:"status"`
	Detail string   `json:"detail,omitempty"`
}

type Eng struct {
	prog  *ssa.Program
	pkg   *ssa.Package
	fset  *token.FileSet
	funcs map[string]*ssa.Function
	obls  []*Obl
	errs  []string
	roleNames map[string]string
	repo  string
}

func funcKey(fn *ssa.Function) string {
	if fn.Parent() != nil {
		return funcKey(fn.Parent()) + "$" + strings.TrimPrefix(fn.Name(), fn.Parent().Name()+"$")
	}
	if fn.Signature.Recv() != nil {
		rt := fn.Signature.Recv().Type()
		ptr := ""
		if p, ok := rt.(*types.Pointer); ok {
			rt = p.Elem()
			ptr = "*"
		}
		if n, ok := rt.(*types.Named); ok {
			return fmt.Sprintf("(%s%s).%s", ptr, n.Obj().Name(), fn.Name())
		}
	}
	return fn.Name()
}

func (e *Eng) add(name, fn string, props []string, ok bool, detail string) {
	// goroutine bodies of ParseNDStream are named by role, not by their ordinal among the anonymous functions
	if e.roleNames == nil {
		e.roleNames = map[string]string{}
		for _, role := range []string{"reader", "worker", "forwarder"} {
			if f := e.ndRoleQuiet(role); f != nil {
				e.roleNames[funcKey(f)] = "ParseNDStream." + role
			}
		}
	}
	if rn, ok := e.roleNames[fn]; ok {
		fn = rn
	}
	st := "discharged"
	if !ok {
		st = "failed"
	}
	e.obls = append(e.obls, &Obl{ID: "frame/" + fn + "/" + name, Name: name, Func: fn, Props: props, Status: st, Detail: detail})
}

func (e *Eng) fn(key string) *ssa.Function {
	f := e.funcs[key]
	if f == nil {
		e.errs = append(e.errs, "function not found: "+key)
	}
	return f
}

// ---- instruction predicates

type pred func(ssa.Instruction) bool

func callCommon(in ssa.Instruction) *ssa.CallCommon {
	switch x := in.(type) {
	case *ssa.Call:
		return &x.Call
	case *ssa.Go:
		return &x.Call
	case *ssa.Defer:
		return &x.Call
	}
	return nil
}

func calleeName(cc *ssa.CallCommon) string {
	if cc == nil {
		return ""
	}
	if cc.IsInvoke() {
		return cc.Method.Name()
	}
	if f := cc.StaticCallee(); f != nil {
		if f.Pkg != nil && f.Signature.Recv() == nil {
			if f.Pkg.Pkg.Name() == "simdjson" {
				return f.Name()
			}
			return f.Pkg.Pkg.Name() + "." + f.Name()
		}
		return funcKeyExt(f)
	}
	if b, ok := cc.Value.(*ssa.Builtin); ok {
		return b.Name()
	}
	return ""
}

func funcKeyExt(f *ssa.Function) string {
	if f.Signature.Recv() != nil {
		rt := f.Signature.Recv().Type()
		ptr := ""
		if p, ok := rt.(*types.Pointer); ok {
			rt = p.Elem()
			ptr = "*"
		}
		if n, ok := rt.(*types.Named); ok {
			pk := ""
			if n.Obj().Pkg() != nil && n.Obj().Pkg().Name() != "simdjson" {
				pk = n.Obj().Pkg().Name() + "."
			}
			return fmt.Sprintf("(%s%s%s).%s", ptr, pk, n.Obj().Name(), f.Name())
		}
	}
	return f.Name()
}

// isCall: a plain call (not go/defer) of the named function
func isCall(name string) pred {
	return func(in ssa.Instruction) bool {
		c, ok := in.(*ssa.Call)
		return ok && calleeName(&c.Call) == name
	}
}
func isDefer(name string) pred {
	return func(in ssa.Instruction) bool {
		c, ok := in.(*ssa.Defer)
		return ok && calleeName(&c.Call) == name
	}
}
func isGo() pred {
	return func(in ssa.Instruction) bool { _, ok := in.(*ssa.Go); return ok }
}
func isReturn() pred {
	return func(in ssa.Instruction) bool {
		_, ok := in.(*ssa.Return)
		if ok && in.Parent().Recover != nil && in.Block() == in.Parent().Recover {
			return false // the synthetic return of the recover block runs only after a recovered panic
		}
		return ok
	}
}
func isSend() pred {
	return func(in ssa.Instruction) bool { _, ok := in.(*ssa.Send); return ok }
}
func or(ps ...pred) pred {
	return func(in ssa.Instruction) bool {
		for _, p := range ps {
			if p(in) {
				return true
			}
		}
		return false
	}
}

type ipos struct {
	b *ssa.BasicBlock
	i int
}

func find(fn *ssa.Function, p pred) []ipos {
	var out []ipos
	for _, b := range fn.Blocks {
		for i, in := range b.Instrs {
			if p(in) {
				out = append(out, ipos{b, i})
			}
		}
	}
	return out
}

// reachWithout: can an instruction matching target be reached from start (exclusive) without executing one matching block?
func reachWithout(start ipos, target, block pred) (bool, ssa.Instruction) {
	type key struct {
		b *ssa.BasicBlock
		i int
	}
	seen := map[key]bool{}
	var work []key
	work = append(work, key{start.b, start.i + 1})
	for len(work) > 0 {
		k := work[len(work)-1]
		work = work[:len(work)-1]
		if seen[k] {
			continue
		}
		seen[k] = true
		b := k.b
		stopped := false
		for i := k.i; i < len(b.Instrs); i++ {
			in := b.Instrs[i]
			if block(in) {
				stopped = true
				break
			}
			if target(in) {
				return true, in
			}
		}
		if stopped {
			continue
		}
		for _, s := range b.Succs {
			work = append(work, key{s, 0})
		}
	}
	return false, nil
}

// mustFollow: every path from each A to a return executes B (a deferred B registered on every path before A also counts).
func (e *Eng) mustFollow(fn *ssa.Function, name string, props []string, A, B pred, deferB pred, what string) {
	if fn == nil {
		return
	}
	as := find(fn, A)
	if len(as) == 0 {
		e.add(name, funcKey(fn), props, false, "no instruction matching the premise ("+what+"): the obligation would be vacuous")
		return
	}
	for _, a := range as {
		// deferred B registered on all paths from entry to a?
		if deferB != nil {
			entry := ipos{fn.Blocks[0], -1}
			self := a
			isA := func(in ssa.Instruction) bool { return in == self.b.Instrs[self.i] }
			if r, _ := reachWithout(entry, isA, deferB); !r {
				continue // every path to this A has the deferred B
			}
		}
		bb := B
		if deferB != nil {
			bb = or(B, deferB) // a deferred B executed on the way runs at the return
		}
		if r, w := reachWithout(okBranch(a), isReturn(), bb); r {
			e.add(name, funcKey(fn), props, false, fmt.Sprintf("%s: a path from %s reaches the return at %s without it", what, e.pos(a.b.Instrs[a.i]), e.pos(w)))
			return
		}
	}
	e.add(name, funcKey(fn), props, true, fmt.Sprintf("%d premise sites", len(as)))
}

// mustPrecede: every path from entry to each B executes A first.
func (e *Eng) mustPrecede(fn *ssa.Function, name string, props []string, A, B pred, what string) {
	if fn == nil {
		return
	}
	bs := find(fn, B)
	if len(bs) == 0 {
		e.add(name, funcKey(fn), props, false, "no instruction matching the conclusion site ("+what+"): vacuous")
		return
	}
	entry := ipos{fn.Blocks[0], -1}
	if r, w := reachWithout(entry, B, A); r {
		e.add(name, funcKey(fn), props, false, fmt.Sprintf("%s: %s (block %d: %s) reachable from entry without it", what, e.pos(w), w.Block().Index, w.String()))
		return
	}
	e.add(name, funcKey(fn), props, true, fmt.Sprintf("%d sites", len(bs)))
}

// exactlyOncePerPath: on every entry->return path exactly one instruction matching A executes (A must not sit in a cycle).
func (e *Eng) exactlyOncePerPath(fn *ssa.Function, name string, props []string, A pred, what string) {
	if fn == nil {
		return
	}
	as := find(fn, A)
	if len(as) == 0 {
		e.add(name, funcKey(fn), props, false, "no site ("+what+")")
		return
	}
	// at least once: return not reachable from entry without A
	entry := ipos{fn.Blocks[0], -1}
	if r, w := reachWithout(entry, isReturn(), A); r {
		e.add(name, funcKey(fn), props, false, fmt.Sprintf("%s: return at %s reachable without it", what, e.pos(w)))
		return
	}
	// at most once: from any A, no A reachable
	for _, a := range as {
		if r, w := reachWithout(a, A, func(ssa.Instruction) bool { return false }); r {
			e.add(name, funcKey(fn), props, false, fmt.Sprintf("%s: a second one at %s is reachable after %s", what, e.pos(w), e.pos(a.b.Instrs[a.i])))
			return
		}
	}
	e.add(name, funcKey(fn), props, true, fmt.Sprintf("%d sites", len(as)))
}

func (e *Eng) pos(in ssa.Instruction) string {
	p := in.Pos()
	if !p.IsValid() {
		// search neighbours
		b := in.Block()
		for _, x := range b.Instrs {
			if x.Pos().IsValid() {
				p = x.Pos()
				break
			}
		}
	}
	if !p.IsValid() {
		return "?"
	}
	ps := e.fset.Position(p)
	f := ps.Filename
	if i := strings.LastIndex(f, "/"); i >= 0 {
		f = f[i+1:]
	}
	return fmt.Sprintf("%s:%d", f, ps.Line)
}

// ---- global variable access

func rootGlobal(v ssa.Value) *ssa.Global {
	for {
		switch x := v.(type) {
		case *ssa.Global:
			return x
		case *ssa.IndexAddr:
			v = x.X
		case *ssa.FieldAddr:
			v = x.X
		case *ssa.Slice:
			v = x.X
		default:
			return nil
		}
	}
}

func (e *Eng) allFuncs() []*ssa.Function {
	var out []*ssa.Function
	seen := map[*ssa.Function]bool{}
	var add func(f *ssa.Function)
	add = func(f *ssa.Function) {
		if f == nil || seen[f] {
			return
		}
		seen[f] = true
		out = append(out, f)
		for _, a := range f.AnonFuncs {
			add(a)
		}
	}
	for _, f := range e.funcs {
		add(f)
	}
	sort.Slice(out, func(i, j int) bool { return funcKey(out[i]) < funcKey(out[j]) })
	return out
}

func (e *Eng) globals(props []string) {
	stores := map[string][]string{}
	all := map[string]types.Type{}
	for _, m := range e.pkg.Members {
		if g, ok := m.(*ssa.Global); ok {
			all[g.Name()] = g.Type().(*types.Pointer).Elem()
		}
	}
	for _, fn := range e.allFuncs() {
		if strings.HasSuffix(fn.Pkg.Pkg.Path(), "_test") {
			continue
		}
		if fn.Synthetic != "" && fn.Name() == "init" {
			continue
		}
		file := ""
		if fn.Pos().IsValid() {
			file = e.fset.Position(fn.Pos()).Filename
		}
		if strings.HasSuffix(file, "_test.go") || strings.HasSuffix(file, "verif_contracts.go") {
			continue
		}
		for _, b := range fn.Blocks {
			for _, in := range b.Instrs {
				if st, ok := in.(*ssa.Store); ok {
					if g := rootGlobal(st.Addr); g != nil {
						stores[g.Name()] = append(stores[g.Name()], funcKey(fn))
					}
				}
			}
		}
	}
	var names []string
	for n := range all {
		names = append(names, n)
	}
	sort.Strings(names)
	for _, n := range names {
		if strings.HasPrefix(n, "init$") {
			continue
		}
		ws := stores[n]
		t := all[n].String()
		ok, detail := true, ""
		switch {
		case len(ws) == 0:
			detail = "never stored outside the package initializer (read-only after init)"
			if strings.Contains(t, "sync.Pool") || strings.Contains(t, "sync.Once") {
				detail = "sync type, accessed through its methods only"
			}
		case onlyIn(ws, "init#1", "init"):
			detail = "written only in init()"
		case n == "zDec" && onlyIn(ws, "initSerializer"):
			detail = "written only in initSerializer (reached through initSerializerOnce.Do only: see next obligation)"
		default:
			ok = false
			detail = "stored at run time by " + strings.Join(uniq(ws), ", ")
		}
		e.add("global#"+n, "package", props, ok, t+": "+detail)
	}
	// initSerializer is only referenced as argument of initSerializerOnce.Do
	if is := e.funcs["initSerializer"]; is != nil {
		bad := ""
		for _, fn := range e.allFuncs() {
			for _, b := range fn.Blocks {
				for _, in := range b.Instrs {
					for _, op := range in.Operands(nil) {
						if *op == ssa.Value(is) {
							c, isCallI := in.(*ssa.Call)
							if !isCallI || calleeName(&c.Call) != "(*sync.Once).Do" {
								bad = funcKey(fn) + " uses initSerializer outside Once.Do"
							}
						}
					}
				}
			}
		}
		e.add("global#zDec.once", "initSerializer", props, bad == "", bad)
	}
}

func onlyIn(ws []string, names ...string) bool {
	for _, w := range ws {
		ok := false
		for _, n := range names {
			if w == n {
				ok = true
			}
		}
		if !ok {
			return false
		}
	}
	return true
}

func uniq(xs []string) []string {
	m := map[string]bool{}
	var out []string
	for _, x := range xs {
		if !m[x] {
			m[x] = true
			out = append(out, x)
		}
	}
	sort.Strings(out)
	return out
}

func main() {
	repo := flag.String("repo", "/repo", "repository")
	out := flag.String("out", "", "output JSON")
	tags := flag.String("tags", "verif", "build tags")
	flag.Parse()
	cfg := &packages.Config{Mode: packages.LoadAllSyntax, Dir: *repo, BuildFlags: []string{"-tags=" + *tags}}
	cfg.Env = append(os.Environ(), "GOFLAGS=-mod=mod", "GOPROXY=off", "GOSUMDB=off", "GOTOOLCHAIN=local")
	res := map[string]interface{}{"engine": "frame"}
	emit := func() {
		var f *os.File = os.Stdout
		if *out != "" {
			f, _ = os.Create(*out)
			defer f.Close()
		}
		enc := json.NewEncoder(f)
		enc.SetIndent("", " ")
		enc.Encode(res)
	}
	pkgs, err := packages.Load(cfg, ".")
	if err != nil || len(pkgs) != 1 || len(pkgs[0].Errors) > 0 {
		res["errors"] = []string{fmt.Sprintf("load: %v %v", err, pkgs)}
		emit()
		os.Exit(2)
	}
	prog, spkgs := ssautil.AllPackages(pkgs, ssa.BuilderMode(0))
	prog.Build()
	e := &Eng{prog: prog, pkg: spkgs[0], fset: pkgs[0].Fset, funcs: map[string]*ssa.Function{}, repo: *repo}
	var addFn func(fn *ssa.Function)
	addFn = func(fn *ssa.Function) {
		e.funcs[funcKey(fn)] = fn
		for _, a := range fn.AnonFuncs {
			addFn(a)
		}
	}
	for _, m := range e.pkg.Members {
		switch x := m.(type) {
		case *ssa.Function:
			addFn(x)
		case *ssa.Type:
			for _, t := range []types.Type{x.Type(), types.NewPointer(x.Type())} {
				ms := prog.MethodSets.MethodSet(t)
				for i := 0; i < ms.Len(); i++ {
					if fn := prog.MethodValue(ms.At(i)); fn != nil && fn.Synthetic == "" {
						addFn(fn)
					}
				}
			}
		}
	}
	e.obligations()
	res["obligations"] = e.obls
	res["errors"] = e.errs
	emit()
	for _, o := range e.obls {
		if o.Status != "discharged" {
			os.Exit(1)
		}
	}
	if len(e.errs) > 0 {
		os.Exit(1)
	}
}

// okBranch: for a call whose error result is tested right away (if err != nil { return ... }), the position
// from which the success path continues; otherwise the call itself.
func okBranch(a ipos) ipos {
	call, ok := a.b.Instrs[a.i].(*ssa.Call)
	if !ok {
		return a
	}
	for _, r := range *call.Referrers() {
		var errv ssa.Value
		switch x := r.(type) {
		case *ssa.BinOp:
			if x.X == ssa.Value(call) || x.Y == ssa.Value(call) {
				errv = x
			}
		case *ssa.Extract:
			for _, r2 := range *x.Referrers() {
				if b, ok := r2.(*ssa.BinOp); ok {
					errv = b
				}
			}
		}
		bin, ok := errv.(*ssa.BinOp)
		if !ok || bin.Op != token.NEQ {
			continue
		}
		for _, r3 := range *bin.Referrers() {
			if iff, ok := r3.(*ssa.If); ok && iff.Block() == a.b {
				return ipos{iff.Block().Succs[1], -1}
			}
		}
	}
	return a
}
