package main

import (
	"fmt"
	"go/token"
	"strings"

	"golang.org/x/tools/go/ssa"
)

// apiOutcome: Parse and ParseND return "an error and no result" or "a result and no error", and a result is returned
// only on paths on which BOTH internal steps (constructing the parser object, parseMessage) reported no error: the
// error of each step is tested, its failure branch returns (nil, that error), and every successful return is
// dominated by the no-error edge of both tests. Parse runs the machine in single-document mode, ParseND in
// newline-delimited mode (the constant mode flag handed to parseMessage). What this rules out: an error that is
// dropped, overwritten or only honoured in one mode, so that a rejected input still yields a (partial) document.
func (e *Eng) apiOutcome() {
	for _, c := range []struct {
		key   string
		nd    bool
		props []string
	}{{"Parse", false, []string{"C01", "C05"}}, {"ParseND", true, []string{"C08", "C05"}}} {
		name := "api#error-xor-result"
		fn := e.fn(c.key)
		if fn == nil {
			e.add(name, c.key, c.props, false, "function not found")
			continue
		}
		var bad []string
		isNil := func(v ssa.Value) bool {
			k, ok := v.(*ssa.Const)
			return ok && k.Value == nil
		}
		// the two fallible steps and the If that tests each one's error
		type step struct {
			call    *ssa.Call
			errv    ssa.Value
			okBlock *ssa.BasicBlock
		}
		var steps []step
		for _, b := range fn.Blocks {
			for _, in := range b.Instrs {
				call, ok := in.(*ssa.Call)
				if !ok {
					continue
				}
				n := calleeName(&call.Call)
				if n != "newInternalParsedJson" && !strings.HasSuffix(n, "parseMessage") {
					continue
				}
				var errv ssa.Value
				if call.Call.Signature().Results().Len() == 1 {
					errv = call
				} else {
					for _, r := range *call.Referrers() {
						if ex, ok := r.(*ssa.Extract); ok && ex.Index == call.Call.Signature().Results().Len()-1 {
							errv = ex
						}
					}
				}
				if errv == nil {
					bad = append(bad, fmt.Sprintf("%s: the error of %s is not looked at", e.pos(in), n))
					continue
				}
				st := step{call: call, errv: errv}
				for _, r := range *errv.Referrers() {
					bo, ok := r.(*ssa.BinOp)
					if !ok || bo.Op != token.NEQ || !(isNil(bo.X) || isNil(bo.Y)) {
						continue
					}
					for _, rr := range *bo.Referrers() {
						if iff, ok := rr.(*ssa.If); ok {
							fail := iff.Block().Succs[0]
							st.okBlock = iff.Block().Succs[1]
							// the failure branch returns (nil, this error)
							ret, ok := fail.Instrs[len(fail.Instrs)-1].(*ssa.Return)
							// (nil, the error itself or an error built from it - never nil)
							if !ok || len(ret.Results) != 2 || !isNil(ret.Results[0]) || isNil(ret.Results[1]) {
								bad = append(bad, fmt.Sprintf("%s: the failure of %s does not return (nil, an error)", e.pos(iff), n))
							}
						}
					}
				}
				if st.okBlock == nil {
					bad = append(bad, fmt.Sprintf("%s: the error of %s is never tested against nil", e.pos(in), n))
				}
				if strings.HasSuffix(n, "parseMessage") {
					args := call.Call.Args
					k, ok := args[len(args)-1].(*ssa.Const)
					if !ok || k.Value == nil || (k.Value.String() == "true") != c.nd {
						bad = append(bad, fmt.Sprintf("%s: %s must run the machine with ndjson == %v", e.pos(in), c.key, c.nd))
					}
				}
				steps = append(steps, st)
			}
		}
		if len(steps) != 2 {
			bad = append(bad, fmt.Sprintf("expected one parser construction and one parseMessage call, found %d fallible steps", len(steps)))
		}
		nret := 0
		for _, b := range fn.Blocks {
			ret, ok := b.Instrs[len(b.Instrs)-1].(*ssa.Return)
			if !ok || len(ret.Results) != 2 {
				continue
			}
			nret++
			r0, r1 := ret.Results[0], ret.Results[1]
			switch {
			case isNil(r0) && !isNil(r1):
			case !isNil(r0) && isNil(r1):
				if _, ok := r0.(*ssa.FieldAddr); !ok {
					bad = append(bad, fmt.Sprintf("%s: the result is not the parser object's document", e.pos(ret)))
				}
				for _, st := range steps {
					if st.okBlock != nil && !st.okBlock.Dominates(b) {
						bad = append(bad, fmt.Sprintf("%s: a result is returned on a path that does not pass the no-error edge of %s", e.pos(ret), calleeName(&st.call.Call)))
					}
				}
			default:
				bad = append(bad, fmt.Sprintf("%s: returns neither (nil, error) nor (result, nil)", e.pos(ret)))
			}
		}
		detail := fmt.Sprintf("%d returns: each is (nil, error) or (document, nil); results only behind the no-error edges of %d fallible steps; mode flag ndjson=%v", nret, len(steps), c.nd)
		if len(bad) > 0 {
			detail = strings.Join(bad, "; ")
		}
		e.add(name, c.key, c.props, len(bad) == 0 && nret > 0, detail)
	}
}

// modeFlag: parseMessage sets the machine's mode from its own argument on EVERY call, before either stage can run:
// every path from entry to a stage call / goroutine start stores pj.ndjson, the value stored is 1 exactly under the
// caller's ndjson == true and 0 otherwise. A mode that is only set the first time an object is used makes the
// outcome of ParseND depend on what the reused object parsed before.
func (e *Eng) modeFlag() {
	props := []string{"C08", "C15"}
	fn := e.fn("(*internalParsedJson).parseMessage")
	if fn == nil {
		return
	}
	storeND := func(in ssa.Instruction) bool {
		st, ok := in.(*ssa.Store)
		if !ok {
			return false
		}
		fa, ok := st.Addr.(*ssa.FieldAddr)
		return ok && fieldNameOf(&ssa.UnOp{Op: token.MUL, X: fa}) == "ndjson"
	}
	stage := or(isGo(), isCall("(*internalParsedJson).findStructuralIndices"), isCall("(*internalParsedJson).unifiedMachine"))
	e.mustPrecede(fn, "mode#flag-set-before-stages", props, storeND, stage, "the ndjson mode flag is stored on every path before a stage runs")
	// the value follows the argument
	var param *ssa.Parameter
	for _, p := range fn.Params {
		if p.Name() == "ndjson" {
			param = p
		}
	}
	var bad []string
	n := 0
	if param == nil {
		bad = append(bad, "parseMessage has no ndjson parameter")
	} else {
		var tSucc, fSucc *ssa.BasicBlock
		for _, r := range *param.Referrers() {
			if iff, ok := r.(*ssa.If); ok {
				tSucc, fSucc = iff.Block().Succs[0], iff.Block().Succs[1]
			}
		}
		for _, p := range find(fn, storeND) {
			st := p.b.Instrs[p.i].(*ssa.Store)
			n++
			switch {
			case tSucc != nil && tSucc.Dominates(p.b) && len(tSucc.Preds) == 1:
				if !isConstInt(st.Val, 1) {
					bad = append(bad, e.pos(st)+": under ndjson == true the flag must be 1")
				}
			case fSucc != nil && fSucc.Dominates(p.b) && len(fSucc.Preds) == 1:
				if !isConstInt(st.Val, 0) {
					bad = append(bad, e.pos(st)+": under ndjson == false the flag must be 0")
				}
			default:
				// one store of a value chosen by the argument: 1 on the edge from the true branch, 0 on the others
				phi, isPhi := st.Val.(*ssa.Phi)
				okPhi := isPhi && tSucc != nil && len(tSucc.Preds) == 1
				sawOne := false
				if okPhi {
					for i, ed := range phi.Edges {
						fromTrue := tSucc.Dominates(phi.Block().Preds[i])
						if fromTrue {
							sawOne = true
						}
						if (fromTrue && !isConstInt(ed, 1)) || (!fromTrue && !isConstInt(ed, 0)) {
							okPhi = false
						}
					}
				}
				if okPhi && sawOne {
					n++ // stands for both values
				} else {
					bad = append(bad, e.pos(st)+": the flag is stored at a place that does not depend on the ndjson argument")
				}
			}
		}
		if n < 2 {
			bad = append(bad, fmt.Sprintf("expected a store for each value of the argument, found %d", n))
		}
	}
	detail := fmt.Sprintf("%d stores of the mode flag, each the constant its branch of the ndjson argument demands", n)
	if len(bad) > 0 {
		detail = strings.Join(bad, "; ")
	}
	e.add("mode#flag-follows-argument", funcKey(fn), props, len(bad) == 0, detail)
}

// copyModePassed: every string the stage-2 machine parses is parsed in the configured string mode: each parseString
// call in unifiedMachine receives pj.copyStrings (read from the parser object, not a constant) as its copy argument.
// One call site with the mode hard-wired makes some strings (say, every key after the first) reference the caller's
// buffer although copying was asked for - visible only after the input is overwritten.
func (e *Eng) copyModePassed() {
	props := []string{"C16"}
	name := "stage2#copy-mode-passed-to-every-string"
	fn := e.fn("(*internalParsedJson).unifiedMachine")
	if fn == nil {
		return
	}
	var bad []string
	n := 0
	for _, p := range find(fn, isCall("parseString")) {
		c := p.b.Instrs[p.i].(*ssa.Call)
		n++
		a := c.Call.Args[len(c.Call.Args)-1]
		if fieldNameOf(a) != "copyStrings" {
			bad = append(bad, e.pos(c)+": parseString is not given pj.copyStrings as its copy argument")
		}
	}
	if n == 0 {
		bad = append(bad, "no parseString call found in the stage-2 machine")
	}
	detail := fmt.Sprintf("%d parseString calls, each with pj.copyStrings", n)
	if len(bad) > 0 {
		detail = strings.Join(bad, "; ")
	}
	e.add(name, funcKey(fn), props, len(bad) == 0, detail)
}

// doneReportsTerminator: the second result of the stage-2 machine tells the caller whether the end-of-stream marker
// of the index channel has been consumed (the caller drains the channel exactly when it has not). At every return it
// is the flag most recently handed back by updateChar - never a constant. A constant false after the marker was
// consumed makes the concurrent path wait for a marker that will never come (Parse hangs on large rejected inputs);
// a constant true leaves entries in the channel for the next parse.
func (e *Eng) doneReportsTerminator() {
	props := []string{"C05", "C07"}
	name := "stage2#done-is-updateChar-flag"
	fn := e.fn("(*internalParsedJson).unifiedMachine")
	if fn == nil {
		return
	}
	var bad []string
	n := 0
	var leafOK func(v ssa.Value, seen map[ssa.Value]bool) bool
	leafOK = func(v ssa.Value, seen map[ssa.Value]bool) bool {
		if seen[v] {
			return true
		}
		seen[v] = true
		switch x := v.(type) {
		case *ssa.Phi:
			for _, ed := range x.Edges {
				if !leafOK(ed, seen) {
					return false
				}
			}
			return true
		case *ssa.Extract:
			if c, ok := x.Tuple.(*ssa.Call); ok && x.Index == 0 {
				n := calleeName(&c.Call)
				return n == "updateChar" || n == "updateCharDebug"
			}
		}
		return false
	}
	for _, b := range fn.Blocks {
		ret, ok := b.Instrs[len(b.Instrs)-1].(*ssa.Return)
		if !ok || len(ret.Results) != 2 {
			continue
		}
		n++
		if !leafOK(ret.Results[1], map[ssa.Value]bool{}) {
			bad = append(bad, e.pos(ret)+": the done result is not the flag handed back by updateChar")
		}
	}
	detail := fmt.Sprintf("%d returns, each reports updateChar's end-of-stream flag", n)
	if len(bad) > 0 {
		detail = strings.Join(bad, "; ")
	}
	e.add(name, funcKey(fn), props, len(bad) == 0 && n > 0, detail)
}

// ringOwnSlot: stage 1 touches the ring of index buffers only through the slot it has just claimed: every access to
// pj.buffers in findStructuralIndices addresses element (claimed counter % indexSlots), the counter being the value
// the atomic increment of buffersOffset returned. Any other element may be in the consumer's hands (the channel holds
// up to indexSlots-2 claimed slots, the consumer one more): writing there changes indexes before they are consumed,
// under a schedule in which the producer is a full lap ahead.
func (e *Eng) ringOwnSlot() {
	props := []string{"C07"}
	name := "stage1#ring-accessed-only-at-claimed-slot"
	fn := e.fn("(*internalParsedJson).findStructuralIndices")
	if fn == nil {
		return
	}
	var bad []string
	n := 0
	for _, b := range fn.Blocks {
		for _, in := range b.Instrs {
			fa, ok := in.(*ssa.FieldAddr)
			if !ok || fieldNameOf(&ssa.UnOp{Op: token.MUL, X: fa}) != "buffers" {
				continue
			}
			for _, r := range *fa.Referrers() {
				ia, ok := r.(*ssa.IndexAddr)
				if !ok {
					if _, dbg := r.(*ssa.DebugRef); !dbg {
						bad = append(bad, e.pos(r)+": the ring is used other than by addressing one slot")
					}
					continue
				}
				n++
				claimed := false
				if bo, ok := ia.Index.(*ssa.BinOp); ok && bo.Op == token.REM {
					if c, ok := bo.X.(*ssa.Call); ok && calleeName(&c.Call) == "atomic.AddUint64" && len(c.Call.Args) > 0 {
						if cfa, ok := c.Call.Args[0].(*ssa.FieldAddr); ok && fieldNameOf(&ssa.UnOp{Op: token.MUL, X: cfa}) == "buffersOffset" {
							claimed = true
						}
					}
				}
				if !claimed {
					bad = append(bad, e.pos(ia)+": a ring slot other than the one just claimed (buffersOffset counter % slots) is addressed")
				}
			}
		}
	}
	if n == 0 {
		bad = append(bad, "no access to the ring found (the obligation would be vacuous)")
	}
	detail := fmt.Sprintf("%d ring accesses, each at the slot claimed by the atomic counter", n)
	if len(bad) > 0 {
		detail = strings.Join(bad, "; ")
	}
	e.add(name, funcKey(fn), props, len(bad) == 0, detail)
}
