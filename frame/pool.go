package main

import (
	"fmt"
	"go/token"

	"golang.org/x/tools/go/ssa"
)

// poolPutOnce: an object goes back into a shared pool AT MOST ONCE per execution of the function that puts it. A
// deferred Put counts as executing at the return. An object that sits in the pool twice is handed to two later
// callers at once: their streams mix, and it needs a particular history (a successful block, then two concurrent or
// nested users) to show.
func (e *Eng) poolPutOnce() {
	props := []string{"C20", "C15"}
	root := func(v ssa.Value) ssa.Value {
		if mi, ok := v.(*ssa.MakeInterface); ok {
			v = mi.X
		}
		if u, ok := v.(*ssa.UnOp); ok && u.Op == token.MUL {
			return u.X
		}
		return v
	}
	isPut := func(in ssa.Instruction) (ssa.Value, bool, bool) {
		cc := callCommon(in)
		if cc == nil || calleeName(cc) != "(*sync.Pool).Put" || len(cc.Args) < 2 {
			return nil, false, false
		}
		_, deferred := in.(*ssa.Defer)
		if _, isGo := in.(*ssa.Go); isGo {
			return nil, false, false
		}
		return root(cc.Args[1]), true, deferred
	}
	for _, fn := range e.allFuncs() {
		type put struct {
			p        ipos
			obj      ssa.Value
			deferred bool
		}
		var puts []put
		for _, b := range fn.Blocks {
			for i, in := range b.Instrs {
				if o, ok, d := isPut(in); ok {
					puts = append(puts, put{ipos{b, i}, o, d})
				}
			}
		}
		if len(puts) == 0 {
			continue
		}
		ok, detail := true, fmt.Sprintf("%d Put sites, no object is put twice on one path", len(puts))
		for _, a := range puts {
			for _, b := range puts {
				if a.obj != b.obj {
					continue
				}
				other := b.p.b.Instrs[b.p.i]
				isOther := func(in ssa.Instruction) bool { return in == other }
				reassigned := func(in ssa.Instruction) bool {
					st, isSt := in.(*ssa.Store)
					return isSt && st.Addr == a.obj
				}
				if a.p == b.p {
					// the same site twice: only through a cycle without re-assignment of the object
					if a.deferred {
						continue
					}
				}
				if r, _ := reachWithout(a.p, isOther, reassigned); r && (a.p != b.p) {
					ok, detail = false, fmt.Sprintf("the object put into the pool at %s is put again at %s on the same path (a deferred Put runs at the return)", e.pos(a.p.b.Instrs[a.p.i]), e.pos(other))
				}
			}
		}
		e.add("pool#put-at-most-once", funcKey(fn), props, ok, detail)
	}
}
