package main

import (
	"go/token"
	"fmt"
	"go/types"
	"strings"

	"golang.org/x/tools/go/ssa"
)

// argIsLocal: call whose k-th argument is (the address of) the local variable with the given name
func callWithLocalArg(name string, k int, local string) pred {
	return func(in ssa.Instruction) bool {
		c, ok := in.(*ssa.Call)
		if !ok || calleeName(&c.Call) != name || len(c.Call.Args) <= k {
			return false
		}
		a, ok := c.Call.Args[k].(*ssa.Alloc)
		return ok && a.Comment == local
	}
}

// method call (plain or deferred) on the local variable `local`
func methodOnLocal(method, local string, deferred bool) pred {
	return func(in ssa.Instruction) bool {
		var cc *ssa.CallCommon
		switch x := in.(type) {
		case *ssa.Call:
			if deferred {
				return false
			}
			cc = &x.Call
		case *ssa.Defer:
			if !deferred {
				return false
			}
			cc = &x.Call
		default:
			return false
		}
		if calleeName(cc) != method || len(cc.Args) == 0 {
			return false
		}
		a, ok := cc.Args[0].(*ssa.Alloc)
		return ok && a.Comment == local
	}
}

func (e *Eng) obligations() {
	C20 := []string{"C20"}
	// ---- C20: package-level state
	e.globals([]string{"C20", "C15"})

	// ---- goroutines are joined before the memory they write is read or returned (C20, C19, C11, C05)
	des := e.fn("(*Serializer).Deserialize")
	for _, w := range []struct{ local string }{{"sWG"}, {"wg"}} {
		e.mustFollow(des, "join#decBlock-"+w.local, []string{"C20", "C19", "C15"},
			callWithLocalArg("(*Serializer).decBlock", 3, w.local),
			methodOnLocal("(*sync.WaitGroup).Wait", w.local, false), methodOnLocal("(*sync.WaitGroup).Wait", w.local, true),
			"decBlock may start a goroutine that writes its destination; "+w.local+".Wait() must run before Deserialize returns")
	}
	ser := e.fn("(*Serializer).Serialize")
	e.mustFollow(ser, "join#compressors", []string{"C20", "C11", "C15"}, isGo(), isCall("(*sync.WaitGroup).Wait"), isDefer("(*sync.WaitGroup).Wait"),
		"goroutines finishing the compressed blocks must be waited for before the buffers are read")
	pm := e.fn("(*internalParsedJson).parseMessage")
	e.mustFollow(pm, "join#stage2", []string{"C20", "C07", "C05", "C15"}, isGo(), isCall("(*sync.WaitGroup).Wait"), nil,
		"the stage-2 goroutine must be joined before parseMessage returns")
	// every goroutine body that a WaitGroup waits for signals Done on every path (else the waiter hangs)
	for _, k := range []string{"(*Serializer).decBlock$1", "(*Serializer).decBlock$2", "(*Serializer).Serialize$1", "(*Serializer).Serialize$2", "(*Serializer).Serialize$3", "(*internalParsedJson).parseMessage$1"} {
		e.mustPrecede(e.fn(k), "done#on-every-path", []string{"C20", "C19", "C05", "C07", "C11"},
			or(isCall("(*sync.WaitGroup).Done"), isDefer("(*sync.WaitGroup).Done")), isReturn(), "wg.Done() (called or deferred) before every return")
	}
	// wg.Add precedes the go statement in decBlock (Add after go races with Wait)
	db := e.fn("(*Serializer).decBlock")
	e.mustPrecede(db, "add#before-go", []string{"C20", "C19"}, isCall("(*sync.WaitGroup).Add"), isGo(), "wg.Add(1) before starting the goroutine")

	// ---- C07 / C05: stage 1 always sends the terminator; stage 2 failure drains the channel
	fsi := e.fn("(*internalParsedJson).findStructuralIndices")
	e.terminatorSend(fsi)
	e.syncCapacity()
	e.pipeline()
	e.sharedVars()
	e.stage1State()
	// pooled objects are reset before they are put back / after they are taken
	e.poolDiscipline()

	// ---- C09: ParseNDStream result plumbing
	e.ndstream()
	e.ndstreamChunks()
	e.ndstreamMore()
	e.ndstreamErrors()
	e.filterNotMutated()
	e.familiesSameArguments()
	e.reviewedGlobals()
	e.compressModeComplete()
	e.automaton()
	e.codec()
	e.codecConfig()
	e.codecFlush()
	e.marshalLiterals()
	e.marshalWalkers()
	e.apiOutcome()
	e.readerLineTail()
	e.modeFlag()
	e.poolPutOnce()
	e.copyModePassed()
	e.doneReportsTerminator()
	e.ringOwnSlot()

	// ---- C16: who reads Message
	e.messageReaders()
	// ---- C15: state carried by a reused parser object
	e.reuseObligations()
	e.serializerReuse()
	e.initializeResets()
	// ---- C18: the private Ryu copy is the standard library's
	e.congruence(e.repo)
	_ = C20
}

// terminatorSend: the last send on every path to return is the terminator item {index: -1}.
func (e *Eng) terminatorSend(fn *ssa.Function) {
	if fn == nil {
		return
	}
	props := []string{"C07", "C05", "C15"}
	isTerm := func(in ssa.Instruction) bool {
		s, ok := in.(*ssa.Send)
		if !ok {
			return false
		}
		// value is a load of a local struct whose .index field was set to -1, or a constant struct
		return e.sendsTerminator(s)
	}
	sends := find(fn, isSend())
	terms := find(fn, isTerm)
	if len(terms) == 0 {
		e.add("terminator#sent", funcKey(fn), props, false, fmt.Sprintf("no send of indexChan{index:-1} found among %d sends", len(sends)))
		return
	}
	entry := ipos{fn.Blocks[0], -1}
	if r, w := reachWithout(entry, isReturn(), isTerm); r {
		e.add("terminator#sent", funcKey(fn), props, false, "return at "+e.pos(w)+" reachable without sending the terminator")
		return
	}
	// nothing is sent after the terminator
	for _, t := range terms {
		if r, w := reachWithout(t, isSend(), func(ssa.Instruction) bool { return false }); r {
			e.add("terminator#last", funcKey(fn), props, false, "a send at "+e.pos(w)+" can follow the terminator")
			return
		}
	}
	e.add("terminator#sent", funcKey(fn), props, true, fmt.Sprintf("%d terminator sites, %d sends", len(terms), len(sends)))
	e.add("terminator#last", funcKey(fn), props, true, "")
}

func (e *Eng) sendsTerminator(s *ssa.Send) bool {
	// pattern: t = local indexChan (complit); *(&t.index) = -1; send(*t)
	ld, ok := s.X.(*ssa.UnOp)
	if !ok {
		return false
	}
	al, ok := ld.X.(*ssa.Alloc)
	if !ok {
		return false
	}
	neg := false
	other := false
	for _, ref := range *al.Referrers() {
		fa, ok := ref.(*ssa.FieldAddr)
		if !ok {
			continue
		}
		for _, r2 := range *fa.Referrers() {
			st, ok := r2.(*ssa.Store)
			if !ok {
				continue
			}
			if fa.Field == 0 {
				if c, ok := st.Val.(*ssa.Const); ok && c.Value != nil && c.Int64() == -1 {
					neg = true
				} else {
					other = true
				}
			}
		}
	}
	return neg && !other
}

// poolDiscipline: every sync.Pool.Get of a codec object is followed by Reset before use, and Put is preceded by Reset(nil).
func (e *Eng) poolDiscipline() {
	props := []string{"C20", "C15"}
	for _, k := range []string{"encBlock", "(*Serializer).decBlock$1"} {
		fn := e.fn(k)
		if fn == nil {
			continue
		}
		gets := find(fn, isCall("(*sync.Pool).Get"))
		ok := len(gets) > 0
		detail := fmt.Sprintf("%d Get sites", len(gets))
		for _, g := range gets {
			reset := func(in ssa.Instruction) bool {
				c, isC := in.(*ssa.Call)
				return isC && strings.HasSuffix(calleeName(&c.Call), ".Reset")
			}
			write := func(in ssa.Instruction) bool {
				c, isC := in.(*ssa.Call)
				if !isC {
					return false
				}
				n := calleeName(&c.Call)
				return strings.HasSuffix(n, ".Write") || strings.HasSuffix(n, ".Close") || strings.HasSuffix(n, ".Read") || n == "io.ReadFull"
			}
			if r, w := reachWithout(g, or(write, isReturn()), reset); r {
				if _, isRet := w.(*ssa.Return); isRet && k == "encBlock" {
					// returning the writer after Reset is the normal path; a return without Reset is the violation
				}
				ok = false
				detail = "pooled object used or returned at " + e.pos(w) + " without Reset after Get at " + e.pos(g.b.Instrs[g.i])
			}
		}
		e.add("pool#reset-after-get", k, props, ok, detail)
	}
	// Put is the last use: after an object went back into a shared pool, the function that put it does not call a
	// method on it any more (another goroutine may already have taken it)
	for _, fn := range e.allFuncs() {
		puts := find(fn, isCall("(*sync.Pool).Put"))
		if len(puts) == 0 {
			continue
		}
		ok, detail := true, fmt.Sprintf("%d Put sites", len(puts))
		for _, p := range puts {
			c := p.b.Instrs[p.i].(*ssa.Call)
			if len(c.Call.Args) < 2 {
				continue
			}
			// the object: value converted to interface
			obj := c.Call.Args[1]
			if mi, isMI := obj.(*ssa.MakeInterface); isMI {
				obj = mi.X
			}
			// a captured / address-taken variable is re-loaded at every use: compare the variable, not the load
			root := func(v ssa.Value) ssa.Value {
				if u, isU := v.(*ssa.UnOp); isU && u.Op == token.MUL {
					return u.X
				}
				return v
			}
			ro := root(obj)
			usesObj := func(in ssa.Instruction) bool {
				cc := callCommon(in)
				if cc == nil || in == ssa.Instruction(c) {
					return false
				}
				for _, a := range cc.Args {
					if root(a) == ro {
						return true
					}
				}
				return cc.IsInvoke() && root(cc.Value) == ro
			}
			reassigned := func(in ssa.Instruction) bool {
				st, isSt := in.(*ssa.Store)
				return isSt && st.Addr == ro
			}
			if r, w := reachWithout(p, usesObj, reassigned); r {
				ok, detail = false, "object put into the pool at "+e.pos(c)+" is still used at "+e.pos(w)
			}
		}
		e.add("pool#put-is-last-use", funcKey(fn), props, ok, detail)
	}
}

// ndstream: structure of ParseNDStream's goroutines (C09)
func (e *Eng) ndstream() {
	props := []string{"C09"}
	worker := e.ndRole("worker")
	e.exactlyOncePerPath(worker, "worker#one-result", props, isSend(), "each worker sends exactly one value on its result channel")
	// the worker forces copyStrings before parsing
	if worker != nil {
		ok := false
		for _, b := range worker.Blocks {
			for _, in := range b.Instrs {
				if st, isSt := in.(*ssa.Store); isSt {
					if fa, isFa := st.Addr.(*ssa.FieldAddr); isFa {
						tp := fa.X.Type().Underlying().(*types.Pointer).Elem().Underlying().(*types.Struct)
						if tp.Field(fa.Field).Name() == "copyStrings" {
							if c, isC := st.Val.(*ssa.Const); isC && c.Value != nil && c.Value.String() == "true" {
								ok = true
							}
						}
					}
				}
			}
		}
		e.add("worker#copies-strings", funcKey(worker), []string{"C09", "C16"}, ok, "pj.copyStrings = true in the stream worker")
		e.mustPrecede(worker, "worker#copy-before-parse", []string{"C09", "C16"}, func(in ssa.Instruction) bool {
			st, isSt := in.(*ssa.Store)
			if !isSt {
				return false
			}
			fa, isFa := st.Addr.(*ssa.FieldAddr)
			if !isFa {
				return false
			}
			tp := fa.X.Type().Underlying().(*types.Pointer).Elem().Underlying().(*types.Struct)
			return tp.Field(fa.Field).Name() == "copyStrings"
		}, isCall("(*internalParsedJson).parseMessage"), "copyStrings is set before parseMessage runs")
	}
	reader := e.ndRole("reader")
	if reader != nil {
		// every return of the reader goroutine is preceded by queueError, and close(queue) is deferred
		e.mustPrecede(reader, "reader#error-on-every-exit", props, isCall("queueError"), isReturn(), "queueError before every return of the reader loop")
		e.mustPrecede(reader, "reader#close-deferred", props, isDefer("close"), or(isCall("queueError"), isGo()), "close(queue) deferred before anything is queued")
		// a result channel is queued before its worker starts
		e.mustPrecede(reader, "reader#queue-before-worker", props, isSend(), isGo(), "result channel is enqueued (in order) before the worker goroutine starts")
	}
	fwd := e.ndRole("forwarder")
	if fwd != nil {
		e.mustPrecede(fwd, "forwarder#close-deferred", props, isDefer("close"), or(isSend(), isReturn()), "close(res) deferred before forwarding starts")
	}
	qe := e.fn("queueError")
	e.exactlyOncePerPath(qe, "queueError#one-result", props, func(in ssa.Instruction) bool {
		s, ok := in.(*ssa.Send)
		if !ok {
			return false
		}
		_, isStruct := s.X.Type().Underlying().(*types.Struct)
		return isStruct
	}, "queueError delivers exactly one Stream value")
}

// messageReaders: which functions load the Message field of a ParsedJson (C16)
func (e *Eng) messageReaders() {
	allowed := map[string]string{
		"(*ParsedJson).stringByteAt":                        "reads Message only for strings without STRINGBUFBIT",
		"(*ParsedJson).Clone":                               "copies Message",
		"(*ParsedJson).Reset":                               "truncates",
		"(*Serializer).Deserialize":                         "fills Message of the destination",
		"(*internalParsedJson).parseMessage":                "parser",
		"(*internalParsedJson).findStructuralIndices":       "parser",
		"(*internalParsedJson).unifiedMachine":              "parser",
		"parseString":                                       "parser",
		"updateCharDebug":                                   "debug helper (unused)",
		"(*Iter).Root":                                      "copies the slice header only",
		"(*Iter).Object":                                    "copies the slice header only",
		"(*Iter).Array":                                     "copies the slice header only",
		"(*Object).NextElementBytes":                        "copies the ParsedJson header (dst.tape = o.tape)",
		"ParseNDStream.worker":                              "recycles the reuse buffer before parsing",
		"(*Array).Iter":                                     "copies the ParsedJson header",
		"(*ParsedJson).Iter":                                "copies the ParsedJson header",
		"(*ParsedJson).ForEach":                             "copies the ParsedJson header",
		"(*Object).FindKey":                                 "copies the ParsedJson header",
	}
	var bad []string
	n := 0
	for _, fn := range e.allFuncs() {
		file := ""
		if fn.Pos().IsValid() {
			file = e.fset.Position(fn.Pos()).Filename
		}
		if strings.HasSuffix(file, "_test.go") || strings.HasSuffix(file, "verif_contracts.go") || fn.Synthetic != "" {
			continue
		}
		for _, b := range fn.Blocks {
			for _, in := range b.Instrs {
				fa, ok := in.(*ssa.FieldAddr)
				if !ok {
					continue
				}
				st, ok := fa.X.Type().Underlying().(*types.Pointer).Elem().Underlying().(*types.Struct)
				if !ok || st.Field(fa.Field).Name() != "Message" {
					continue
				}
				// only loads of the field count (stores are writes); a load used for len/cap only reads no contents
				loaded := false
				for _, r := range *fa.Referrers() {
					if u, ok := r.(*ssa.UnOp); ok && u.X == ssa.Value(fa) {
						onlyLen := len(*u.Referrers()) > 0
						for _, r2 := range *u.Referrers() {
							c, isCall := r2.(*ssa.Call)
							if !isCall {
								onlyLen = false
								continue
							}
							if b, isB := c.Call.Value.(*ssa.Builtin); !isB || (b.Name() != "len" && b.Name() != "cap") {
								onlyLen = false
							}
						}
						if !onlyLen {
							loaded = true
						}
					}
				}
				if !loaded {
					continue
				}
				n++
				fk := funcKey(fn)
				if w := e.ndRoleQuiet("worker"); w != nil && w == fn {
					fk = "ParseNDStream.worker"
				}
				if _, ok := allowed[fk]; !ok {
					bad = append(bad, funcKey(fn)+" at "+e.pos(in))
				}
			}
		}
	}
	e.add("message#readers", "package", []string{"C16"}, len(bad) == 0 && n > 0,
		fmt.Sprintf("%d loads of .Message; outside the allowed set: %s", n, strings.Join(uniq(bad), "; ")))
}

// syncCapacity: in the synchronous path (message not longer than the threshold) stage 1 runs to completion before
// stage 2 starts, so everything it sends must fit into the channel: a buffer is only sent early when it holds at
// least indexSizeWithSafetyBuffer-1 entries (kernel contract: early stop iff index >= indexSizeWithSafetyBuffer; at
// most one entry is stripped), every entry consumes at least one byte, plus the last partial buffer and the terminator.
func (e *Eng) syncCapacity() {
	pm := e.fn("(*internalParsedJson).parseMessage")
	if pm == nil {
		return
	}
	props := []string{"C07", "C05"}
	var threshold, capacity int64 = -1, -1
	for _, b := range pm.Blocks {
		for _, in := range b.Instrs {
			switch x := in.(type) {
			case *ssa.MakeChan:
				if c, ok := x.Size.(*ssa.Const); ok && c.Value != nil {
					capacity = c.Int64()
				}
			case *ssa.BinOp:
				// len(pj.Message) > threshold
				if c, ok := x.Y.(*ssa.Const); ok && c.Value != nil && (x.Op.String() == ">" || x.Op.String() == ">=") {
					if call, ok := x.X.(*ssa.Call); ok {
						if bi, ok := call.Call.Value.(*ssa.Builtin); ok && bi.Name() == "len" {
							threshold = c.Int64()
							if x.Op.String() == ">=" {
								threshold--
							}
						}
					}
				}
			}
		}
	}
	konst := func(name string) int64 {
		if c, ok := e.pkg.Members[name].(*ssa.NamedConst); ok && c.Value.Value != nil {
			return c.Value.Int64()
		}
		return -1
	}
	safety := konst("indexSizeWithSafetyBuffer")
	slots := konst("indexSlots")
	if threshold < 0 || capacity < 0 || safety <= 1 || slots < 0 {
		e.add("sync#channel-capacity", funcKey(pm), props, false, fmt.Sprintf("constants not found: threshold=%d capacity=%d safety=%d slots=%d", threshold, capacity, safety, slots))
		return
	}
	sends := threshold/(safety-1) + 2
	e.add("sync#channel-capacity", funcKey(pm), props, sends <= capacity,
		fmt.Sprintf("messages up to %d bytes are parsed synchronously: at most %d/(%d-1)+2 = %d sends, channel capacity %d", threshold, threshold, safety, sends, capacity))
	// ring safety: producer is at most capacity+1 buffers ahead of the consumer's current buffer; slots must exceed that
	e.add("ring#slots-exceed-window", funcKey(pm), props, capacity+2 <= slots,
		fmt.Sprintf("indexSlots=%d, channel capacity=%d: the producer may fill buffer n while the consumer still reads buffer n-capacity-1; needs capacity+2 <= slots", slots, capacity))
}
