package main

import (
	"fmt"
	"go/types"
	"strings"

	"golang.org/x/tools/go/ssa"
)

// marshalLiterals: in the three marshallers the only bytes appended to the output DIRECTLY are literal punctuation
// and the literal atoms (byte constants, constant strings). Everything that comes from the document - keys, string
// values, numbers - reaches the output through escapeBytes / appendFloat / strconv.Append* (whose contracts state
// what they emit) or through a nested marshaller. A key or string appended raw is invalid JSON exactly when it
// contains a quote, a backslash or a control byte: an input-dependent failure no fixed document shows.
func (e *Eng) marshalLiterals() {
	props := []string{"C10"}
	name := "marshal#document-bytes-only-through-escapers"
	for _, key := range []string{"(*Iter).MarshalJSONBuffer", "(Elements).MarshalJSONBuffer", "(*Array).MarshalJSONBuffer"} {
		fn := e.fn(key)
		if fn == nil {
			e.add(name, key, props, false, "function not found")
			continue
		}
		var bad []string
		n := 0
		literalArray := func(a *ssa.Alloc) bool {
			// every store into the backing array of a variadic literal is a constant
			for _, r := range *a.Referrers() {
				switch x := r.(type) {
				case *ssa.IndexAddr:
					for _, rr := range *x.Referrers() {
						if st, ok := rr.(*ssa.Store); ok {
							if !constByte(st.Val) {
								return false
							}
						} else {
							return false
						}
					}
				case *ssa.Slice:
				default:
					return false
				}
			}
			return true
		}
		for _, b := range fn.Blocks {
			for _, in := range b.Instrs {
				c, ok := in.(*ssa.Call)
				if !ok {
					continue
				}
				bi, ok := c.Call.Value.(*ssa.Builtin)
				if !ok || bi.Name() != "append" || len(c.Call.Args) != 2 {
					continue
				}
				sl, ok := c.Call.Args[0].Type().Underlying().(*types.Slice)
				if !ok {
					continue
				}
				if bt, ok := sl.Elem().Underlying().(*types.Basic); !ok || bt.Kind() != types.Uint8 {
					continue
				}
				if _, fresh := c.Call.Args[0].(*ssa.MakeSlice); fresh {
					continue // a private scratch slice made here (error text), not the output
				}
				n++
				switch a := c.Call.Args[1].(type) {
				case *ssa.Const:
					continue
				case *ssa.Convert:
					if _, ok := a.X.(*ssa.Const); ok {
						continue
					}
				case *ssa.Slice:
					if al, ok := a.X.(*ssa.Alloc); ok && a.Low == nil && a.High == nil && literalArray(al) {
						continue
					}
				}
				bad = append(bad, fmt.Sprintf("%s: bytes that are not literals are appended to the output without an escaper", e.pos(in)))
			}
		}
		detail := fmt.Sprintf("%d direct appends to the output, all of literal bytes", n)
		ok := len(bad) == 0 && n > 0
		if !ok {
			detail = strings.Join(bad, "; ")
			if n == 0 {
				detail = "no append to the output found (the obligation would be vacuous)"
			}
		}
		e.add(name, key, props, ok, detail)
	}
}

// constByte: a constant, or a choice between constants (a separator picked by a condition)
func constByte(v ssa.Value) bool {
	switch x := v.(type) {
	case *ssa.Const:
		return true
	case *ssa.Phi:
		for _, e := range x.Edges {
			if _, ok := e.(*ssa.Const); !ok {
				return false
			}
		}
		return true
	}
	return false
}

// marshalWalkers: the container marshallers (Array, Elements) never read the tape themselves: every look at the tape
// goes through the walkers that know about deleted zones (AdvanceIter, PeekNextTag, a nested marshaller). A raw read
// of the word after the current element sees the NOP filler of a deleted LAST element instead of the closing bracket:
// a valid edited document can then not be marshalled (or gets a stray comma).
func (e *Eng) marshalWalkers() {
	props := []string{"C10", "C14"}
	name := "marshal#tape-read-only-through-walkers"
	for _, key := range []string{"(*Array).MarshalJSONBuffer", "(Elements).MarshalJSONBuffer"} {
		fn := e.fn(key)
		if fn == nil {
			continue
		}
		var bad []string
		walkers := 0
		for _, b := range fn.Blocks {
			for _, in := range b.Instrs {
				if ia, ok := in.(*ssa.IndexAddr); ok && fieldNameOf(ia.X) == "Tape" {
					bad = append(bad, e.pos(in)+": the tape is read directly (deleted zones are not skipped)")
				}
				if cc := callCommon(in); cc != nil {
					n := calleeName(cc)
					if strings.HasSuffix(n, ".PeekNextTag") || strings.HasSuffix(n, ".AdvanceIter") || strings.HasSuffix(n, ".MarshalJSONBuffer") {
						walkers++
					}
				}
			}
		}
		ok := len(bad) == 0 && walkers > 0
		detail := fmt.Sprintf("no direct tape read; %d walker / nested marshaller calls", walkers)
		if !ok {
			detail = strings.Join(append(bad, fmt.Sprintf("%d walker calls", walkers)), "; ")
		}
		e.add(name, key, props, ok, detail)
	}
}
