package main

import (
	"fmt"
	"strings"

	"golang.org/x/tools/go/ssa"
)

// readerLineTail: the ND stream reader completes a chunk with the WHOLE line tail that bufio hands back: the bytes
// returned by ReadBytes are appended (append grows the chunk as needed) to the chunk variable itself and are used in
// no other way - not sliced, not copied into a bounded window. A tail cut to the chunk's spare capacity loses the
// end of a line exactly when a read ends near the chunk size and the line crossing it is long: a fragmentation-
// dependent loss.
func (e *Eng) readerLineTail() {
	props := []string{"C09"}
	name := "reader#line-tail-appended-whole"
	reader := e.ndRoleQuiet("reader")
	if reader == nil {
		e.add(name, "ParseNDStream.reader", props, false, "reader goroutine not found")
		return
	}
	var bad []string
	n := 0
	for _, p := range find(reader, isCall("(*bufio.Reader).ReadBytes")) {
		call := p.b.Instrs[p.i].(*ssa.Call)
		var line ssa.Value
		for _, r := range *call.Referrers() {
			if ex, ok := r.(*ssa.Extract); ok && ex.Index == 0 {
				line = ex
			}
		}
		if line == nil {
			bad = append(bad, e.pos(call)+": the bytes returned by ReadBytes are dropped")
			continue
		}
		n++
		appended := false
		for _, r := range *line.Referrers() {
			c, ok := r.(*ssa.Call)
			if ok {
				if bi, isB := c.Call.Value.(*ssa.Builtin); isB && bi.Name() == "append" && len(c.Call.Args) == 2 && c.Call.Args[1] == line {
					// the chunk is the first argument and receives the result
					ld, isLd := c.Call.Args[0].(*ssa.UnOp)
					stored := false
					for _, rr := range *c.Referrers() {
						if st, ok := rr.(*ssa.Store); ok && isLd && st.Addr == ld.X {
							stored = true
						}
					}
					if stored {
						appended = true
					} else {
						bad = append(bad, e.pos(c)+": the line tail is appended to something other than the chunk variable it came from")
					}
					continue
				}
				if bi, isB := c.Call.Value.(*ssa.Builtin); isB && bi.Name() == "len" {
					continue
				}
			}
			if _, ok := r.(*ssa.DebugRef); ok {
				continue
			}
			bad = append(bad, fmt.Sprintf("%s: the line tail is used other than by appending it whole to the chunk", e.pos(r)))
		}
		if !appended {
			bad = append(bad, e.pos(call)+": the line tail is not appended to the chunk")
		}
	}
	if n == 0 {
		bad = append(bad, "no ReadBytes call in the reader (the chunk would not be completed to a line end)")
	}
	detail := fmt.Sprintf("%d ReadBytes result(s): appended whole to the chunk variable, no other use", n)
	if len(bad) > 0 {
		detail = strings.Join(bad, "; ")
	}
	e.add(name, funcKey(reader), props, len(bad) == 0, detail)
}
