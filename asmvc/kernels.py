"""Contracts of the stage-1 kernels (register-level calling convention + S5 postconditions) and
the harness that symbolically executes the machine code of each kernel against them."""
import time
from z3 import (BitVec, BitVecVal, Bool, BoolVal, If, Extract, Concat, ZeroExt, simplify, Solver, unsat, sat, Not, And, Or,
                Select, Store, is_bv_value, LShR, ULT, ULE, UGE)
from x86 import Machine, Unsupported, bv
import specs as S

TIMEOUT_MS = 60000

class Obl:
    def __init__(self, kernel, name, goal, hyps, props, model_vars=None):
        self.kernel, self.name, self.goal, self.hyps, self.props = kernel, name, goal, hyps, props
        self.model_vars = model_vars or []
        self.status, self.time, self.model = None, 0.0, ""

def run_to_ret(m, binary, entry, max_steps=5000, on_branch=None):
    """Execute from entry until the kernel returns to its (symbolic) caller. Straight-line only unless on_branch given."""
    pc = entry
    while pc is not None:
        ins = binary.insns.get(pc)
        if ins is None:
            raise Unsupported("execution left the loaded kernels at %x" % pc)
        r = m.step(ins)
        if isinstance(r, tuple):
            if on_branch is None:
                raise Unsupported("unexpected conditional branch at %x in straight-line kernel" % pc)
            r = on_branch(m, r)
        pc = r
        if m.steps > max_steps:
            raise Unsupported("step budget exceeded")
    return m

def input_block(m, family, bs):
    """Place the 64 input bytes where the sub-kernels expect them."""
    if family == "avx2":
        m.vec[8] = simplify(ZeroExt(256, Concat(*reversed(bs[:32]))))
        m.vec[9] = simplify(ZeroExt(256, Concat(*reversed(bs[32:]))))
    else:
        m.vec[8] = simplify(Concat(*reversed(bs)))

def fresh_bytes(prefix="b"):
    return [BitVec("%s%d" % (prefix, i), 8) for i in range(64)]

def load64(m, region, off=0):
    arr = m.mem[region]
    return simplify(Concat(*reversed([Select(arr, BitVecVal(off + k, 64)) for k in range(8)])))

def set64(m, region, val, off=0):
    arr = m.mem[region]
    for k in range(8):
        arr = Store(arr, BitVecVal(off + k, 64), Extract(8 * k + 7, 8 * k, val))
    m.mem[region] = arr

def sym(k, fam):
    suffix = "_avx512" if fam == "avx512" else ""
    return k + suffix + ".abi0"

def entry(binary, name):
    return binary.syms[name][0]

def new_machine(binary, fam):
    m = Machine(binary, fam)
    m.regs["rsp"] = m.pointer("stack")
    return m

def run_inits(m, binary, fam, names):
    if fam != "avx512":
        return
    for n in names:
        # simulate the CALL: push a symbolic return address so that the callee's RET ends the run
        m.regs["rsp"] = simplify(m.regs["rsp"] - 8)
        m.store(m.regs["rsp"], BitVec("retaddr_%s_%s" % (m.name, n), 64), 64)
        run_to_ret(m, binary, entry(binary, "__init_" + n + "_avx512.abi0"))

# ---------------------------------------------------------------------------
# each builder returns (outputs dict, machine) for one family on shared symbolic inputs

def k_odd_backslash(binary, fam, bs, prev_odd):
    m = new_machine(binary, fam)
    input_block(m, fam, bs)
    m.regs["rdx"] = m.pointer("carry")
    set64(m, "carry", prev_odd)
    run_inits(m, binary, fam, ["odd_backslash_sequences"])
    run_to_ret(m, binary, entry(binary, sym("__find_odd_backslash_sequences", fam)))
    return {"odd_ends": m.regs["rax"], "carry": load64(m, "carry")}, m

def k_quote(binary, fam, bs, odd_ends, prev_inside, err_in):
    m = new_machine(binary, fam)
    input_block(m, fam, bs)
    m.regs["rdx"] = odd_ends
    m.regs["rcx"] = m.pointer("inside")
    set64(m, "inside", prev_inside)
    if fam == "avx2":
        m.regs["r8"] = m.pointer("qbits")
        m.regs["r9"] = m.pointer("err")
        set64(m, "err", err_in)
    else:
        m.k[4] = err_in
    run_inits(m, binary, fam, ["quote_mask_and_bits"])
    run_to_ret(m, binary, entry(binary, sym("__find_quote_mask_and_bits", fam)))
    if fam == "avx2":
        out = {"quote_bits": load64(m, "qbits"), "err": load64(m, "err")}
    else:
        out = {"quote_bits": m.k[6], "err": m.k[4]}
    out["quote_mask"] = m.regs["rax"]
    out["inside"] = load64(m, "inside")
    return out, m

def k_ws(binary, fam, bs):
    m = new_machine(binary, fam)
    input_block(m, fam, bs)
    if fam == "avx2":
        m.regs["rcx"] = m.pointer("st")
        m.regs["rdx"] = m.pointer("ws")
    run_inits(m, binary, fam, ["whitespace_and_structurals"])
    run_to_ret(m, binary, entry(binary, sym("__find_whitespace_and_structurals", fam)))
    if fam == "avx2":
        return {"whitespace": load64(m, "ws"), "structurals": load64(m, "st")}, m
    return {"whitespace": m.k[7], "structurals": m.k[5]}, m

def k_finalize(binary, fam, structurals, whitespace, quote_mask, quote_bits, prev_pred):
    m = new_machine(binary, fam)
    m.regs["rdx"] = quote_mask
    m.regs["r8"] = m.pointer("pred")
    set64(m, "pred", prev_pred)
    if fam == "avx2":
        m.regs["rdi"], m.regs["rsi"], m.regs["rcx"] = structurals, whitespace, quote_bits
    else:
        m.k[5], m.k[7], m.k[6] = structurals, whitespace, quote_bits
    run_to_ret(m, binary, entry(binary, sym("__finalize_structurals", fam)))
    return {"structurals": m.regs["rax"], "pred": load64(m, "pred")}, m

def k_newline(binary, fam, bs, quote_mask):
    m = new_machine(binary, fam)
    input_block(m, fam, bs)
    m.regs["rdx"] = quote_mask
    run_inits(m, binary, fam, ["newline_delimiters"])
    run_to_ret(m, binary, entry(binary, sym("__find_newline_delimiters", fam)))
    return {"newlines": m.regs["rbx"]}, m

def only_stack_and(m, allowed):
    """Frame: which regions were written."""
    bad = []
    for kind, reg, off, n in m.accesses:
        if kind == "store" and reg != "stack" and reg not in allowed:
            bad.append((reg, str(off), n))
    return bad

def bit01(v):
    """carried flags are 0/1 words"""
    return Or(v == 0, v == 1)

def build_obligations(binary):
    obls = []
    for sname in ["__find_odd_backslash_sequences", "__find_quote_mask_and_bits", "__find_whitespace_and_structurals",
                  "__finalize_structurals", "__find_newline_delimiters", "__flatten_bits_incremental"]:
        binary.load_symbol(sname + ".abi0")
    for sname in ["__find_odd_backslash_sequences", "__find_quote_mask_and_bits", "__find_whitespace_and_structurals",
                  "__finalize_structurals", "__find_newline_delimiters", "__init_odd_backslash_sequences",
                  "__init_quote_mask_and_bits", "__init_whitespace_and_structurals", "__init_newline_delimiters"]:
        binary.load_symbol(sname + "_avx512.abi0")

    bs = fresh_bytes()
    P1 = ["C01", "C06"]
    # --- odd backslash
    prev_odd = BitVec("prev_odd", 64)
    hyp = [bit01(prev_odd)]
    sp_ends, sp_carry = S.spec_odd_ends(bs, prev_odd == 1)
    outs = {}
    for fam in ("avx2", "avx512"):
        o, m = k_odd_backslash(binary, fam, bs, prev_odd)
        outs[fam] = o
        k = sym("__find_odd_backslash_sequences", fam)
        obls.append(Obl(k, "out#odd_ends", o["odd_ends"] == sp_ends, hyp, P1 + ["C04"]))
        obls.append(Obl(k, "out#carry", o["carry"] == If(sp_carry, BitVecVal(1, 64), BitVecVal(0, 64)), hyp, P1 + ["C04"]))
        obls.append(Obl(k, "frame#writes", BoolVal(not only_stack_and(m, ["carry"])), [], P1 + ["C05"]))
    obls.append(Obl("product/odd_backslash", "equal#outputs", And(outs["avx2"]["odd_ends"] == outs["avx512"]["odd_ends"], outs["avx2"]["carry"] == outs["avx512"]["carry"]), hyp, ["C06"]))

    # --- quote mask and bits
    odd_ends = BitVec("odd_ends_in", 64)
    prev_inside = BitVec("prev_inside", 64)
    err_in = BitVec("err_in", 64)
    hyp = [Or(prev_inside == 0, prev_inside == BitVecVal(-1, 64))]
    qb, qm, inside, err = S.spec_quotes(bs, odd_ends, prev_inside != 0)
    outs = {}
    for fam in ("avx2", "avx512"):
        o, m = k_quote(binary, fam, bs, odd_ends, prev_inside, err_in)
        outs[fam] = o
        k = sym("__find_quote_mask_and_bits", fam)
        obls.append(Obl(k, "out#quote_bits", o["quote_bits"] == qb, hyp, P1 + ["C04"]))
        obls.append(Obl(k, "out#quote_mask", o["quote_mask"] == qm, hyp, P1 + ["C04"]))
        obls.append(Obl(k, "out#inside_carry", o["inside"] == If(inside, BitVecVal(-1, 64), BitVecVal(0, 64)), hyp, P1 + ["C04"]))
        obls.append(Obl(k, "out#error_mask", o["err"] == (err_in | err), hyp, P1))
        obls.append(Obl(k, "frame#writes", BoolVal(not only_stack_and(m, ["inside", "qbits", "err"])), [], P1 + ["C05"]))
    obls.append(Obl("product/quote_mask_and_bits", "equal#outputs", And(*[outs["avx2"][x] == outs["avx512"][x] for x in ("quote_bits", "quote_mask", "inside", "err")]), hyp, ["C06"]))

    # --- whitespace and structurals
    outs = {}
    for fam in ("avx2", "avx512"):
        o, m = k_ws(binary, fam, bs)
        outs[fam] = o
        k = sym("__find_whitespace_and_structurals", fam)
        obls.append(Obl(k, "out#whitespace", o["whitespace"] == S.spec_whitespace(bs), [], P1 + ["C08"]))  # CR/LF/TAB/space: CRLF line ends (C08)
        obls.append(Obl(k, "out#structurals", o["structurals"] == S.spec_structurals(bs), [], P1))
        obls.append(Obl(k, "frame#writes", BoolVal(not only_stack_and(m, ["ws", "st"])), [], P1 + ["C05"]))
    obls.append(Obl("product/whitespace_and_structurals", "equal#outputs", And(outs["avx2"]["whitespace"] == outs["avx512"]["whitespace"], outs["avx2"]["structurals"] == outs["avx512"]["structurals"]), [], ["C06"]))

    # --- finalize
    st, ws, qmask, qbits, pred = (BitVec(n, 64) for n in ("structurals_in", "whitespace_in", "quote_mask_in", "quote_bits_in", "prev_pred"))
    hyp = [bit01(pred)]
    fs, fpred = S.spec_finalize(st, ws, qmask, qbits, pred == 1)
    outs = {}
    for fam in ("avx2", "avx512"):
        o, m = k_finalize(binary, fam, st, ws, qmask, qbits, pred)
        outs[fam] = o
        k = sym("__finalize_structurals", fam)
        obls.append(Obl(k, "out#structurals", o["structurals"] == fs, hyp, P1))
        obls.append(Obl(k, "out#pred_carry", o["pred"] == If(fpred, BitVecVal(1, 64), BitVecVal(0, 64)), hyp, P1))
        obls.append(Obl(k, "frame#writes", BoolVal(not only_stack_and(m, ["pred"])), [], P1 + ["C05"]))
    obls.append(Obl("product/finalize_structurals", "equal#outputs", And(outs["avx2"]["structurals"] == outs["avx512"]["structurals"], outs["avx2"]["pred"] == outs["avx512"]["pred"]), hyp, ["C06"]))

    # --- newline delimiters
    outs = {}
    for fam in ("avx2", "avx512"):
        o, m = k_newline(binary, fam, bs, qmask)
        outs[fam] = o
        k = sym("__find_newline_delimiters", fam)
        obls.append(Obl(k, "out#newlines", o["newlines"] == S.spec_newline(bs, qmask), [], ["C08", "C06"]))
        obls.append(Obl(k, "frame#writes", BoolVal(not only_stack_and(m, [])), [], ["C08", "C05"]))
    obls.append(Obl("product/newline_delimiters", "equal#outputs", outs["avx2"]["newlines"] == outs["avx512"]["newlines"], [], ["C06", "C08"]))
    return obls

def discharge(o, timeout_ms=TIMEOUT_MS):
    s = Solver()
    s.set("timeout", timeout_ms)
    for h in o.hyps:
        s.add(h)
    s.add(Not(o.goal))
    t0 = time.time()
    r = s.check()
    o.time = time.time() - t0
    if r == unsat:
        o.status = "discharged"
    elif r == sat:
        o.status = "failed"
        mdl = s.model()
        o.model = "\n".join("%s = %s" % (d.name(), mdl[d]) for d in sorted(mdl.decls(), key=lambda d: d.name())[:200])
        o.z3model = mdl
    else:
        o.status = "undecided"
    return o


TASK_PROPS = set("C01 C04 C05 C06 C08".split())

def tasks():
    return [("kernels", "build_obligations", {})]
