"""Disassembly of the kernels out of the linked test binary (objdump) and ELF data access."""
import re, subprocess, struct

PKG = "github.com/minio/simdjson-go."

class Insn:
    __slots__ = ("addr", "mnem", "ops", "text", "comment_addr", "next")
    def __repr__(self):
        return "%x: %s %s" % (self.addr, self.mnem, ",".join(self.ops))

def split_ops(s):
    out, depth, cur = [], 0, ""
    for ch in s:
        if ch in "[{":
            depth += 1
        elif ch in "]}":
            depth -= 1
        if ch == "," and depth == 0:
            out.append(cur.strip()); cur = ""
        else:
            cur += ch
    if cur.strip():
        out.append(cur.strip())
    return out

class Binary:
    def __init__(self, path):
        self.path = path
        self.data = open(path, "rb").read()
        self.sections = []   # (vma, size, fileoff, name)
        out = subprocess.check_output(["objdump", "-h", path], text=True)
        for line in out.splitlines():
            m = re.match(r"\s*\d+\s+(\S+)\s+([0-9a-f]+)\s+([0-9a-f]+)\s+([0-9a-f]+)\s+([0-9a-f]+)", line)
            if m:
                name, size, vma, lma, off = m.group(1), int(m.group(2), 16), int(m.group(3), 16), int(m.group(4), 16), int(m.group(5), 16)
                self.sections.append((vma, size, off, name))
        self.syms = {}
        out = subprocess.check_output(["objdump", "-t", path], text=True)
        for line in out.splitlines():
            parts = line.split()
            if len(parts) >= 5 and parts[-1].startswith(PKG):
                try:
                    self.syms[parts[-1][len(PKG):]] = (int(parts[0], 16), int(parts[-2], 16))
                except ValueError:
                    pass
        self.insns = {}     # addr -> Insn
        self.sym_at = {}    # entry addr -> symbol

    def read(self, vma, n):
        for (v, size, off, name) in self.sections:
            if v <= vma and vma + n <= v + size:
                if name == ".bss" or name == ".noptrbss":
                    return bytes(n)
                return self.data[off + (vma - v): off + (vma - v) + n]
        raise KeyError("address %x not in any section" % vma)

    def writable(self, vma):
        for (v, size, off, name) in self.sections:
            if v <= vma < v + size:
                return name in (".data", ".bss", ".noptrdata", ".noptrbss")
        return False

    def load_symbol(self, sym):
        """Disassemble one symbol (name without package prefix, e.g. '__find_quote_mask_and_bits.abi0')."""
        full = PKG + sym
        out = subprocess.check_output(["objdump", "-d", "-M", "intel", "--no-show-raw-insn", "--disassemble=" + full, self.path], text=True)
        lst = []
        for line in out.splitlines():
            m = re.match(r"\s*([0-9a-f]+):\s+(\S+)\s*(.*)$", line)
            if not m:
                continue
            ins = Insn()
            ins.addr = int(m.group(1), 16)
            ins.mnem = m.group(2)
            rest = m.group(3)
            ins.comment_addr = None
            if "#" in rest:
                rest, c = rest.split("#", 1)
                cm = re.match(r"\s*([0-9a-f]+)", c)
                if cm:
                    ins.comment_addr = int(cm.group(1), 16)
            rest = re.sub(r"<[^>]*>", "", rest).strip()
            ins.ops = split_ops(rest)
            ins.text = line.strip()
            ins.next = None
            if ins.mnem in ("(bad)",):
                raise ValueError("undecodable instruction in %s: %s" % (sym, line))
            lst.append(ins)
        if not lst:
            raise KeyError("symbol not found: " + sym)
        for a, b in zip(lst, lst[1:]):
            a.next = b.addr
        for ins in lst:
            self.insns[ins.addr] = ins
        self.sym_at[lst[0].addr] = sym
        return lst
