"""String kernels: S4 (one-item-at-a-time string scanner) as the specification of
_parse_string_validate_only, table obligations, and per-iteration simulation obligations."""
from z3 import (BitVec, BitVecVal, Bool, BoolVal, If, Extract, Concat, ZeroExt, SignExt, simplify, Not, And, Or, Select, Store,
                ULT, ULE, UGE, UGT, Array, BitVecSort, is_bv_value, LShR)
from x86 import Machine, Unsupported, bv
from kernels import Obl, new_machine, entry, load64, set64
from kernels2 import explore, clone_machine

RUN, DONE, FAIL = 0, 1, 2

def _ideal_table(fn):
    """256-entry byte table as a z3 array, built exactly like x86._table_load builds tables read from the binary
    (constant 0 plus one store per non-zero entry, in index order): the same contents give the same term."""
    from z3 import K
    arr = K(BitVecSort(8), BitVecVal(0, 8))
    for i in range(256):
        v = fn(i)
        if v != 0:
            arr = Store(arr, BitVecVal(i, 8), BitVecVal(v, 8))
    return arr

def _hex_entry(i):
    c = chr(i)
    return int(c, 16) if c in "0123456789abcdefABCDEF" else 0xff

HEXTAB = _ideal_table(_hex_entry)

def hexval(c):
    """(valid, value) of one hexadecimal digit byte, either case: the ideal digit table (0xff = not a digit)."""
    e = Select(HEXTAB, c)
    return e != 0xff, ZeroExt(24, e)

def esc_valid(c):
    return Or(*[c == v for v in (0x22, 0x5c, 0x2f, 0x62, 0x66, 0x6e, 0x72, 0x74)])

def esc_value(c):
    return If(c == 0x62, BitVecVal(8, 8), If(c == 0x66, BitVecVal(12, 8), If(c == 0x6e, BitVecVal(10, 8),
           If(c == 0x72, BitVecVal(13, 8), If(c == 0x74, BitVecVal(9, 8), c)))))

def hex4(src, p):
    ok, val = BoolVal(True), BitVecVal(0, 32)
    for i in range(4):
        v, d = hexval(Select(src, p + i))
        ok = And(ok, v)
        val = (val << 4) | d
    return ok, val

def utf8_len(cp):
    return If(ULT(cp, 0x80), BitVecVal(1, 64), If(ULT(cp, 0x800), BitVecVal(2, 64), If(ULT(cp, 0x10000), BitVecVal(3, 64), BitVecVal(4, 64))))

def combine_surrogates(h, l):
    """Code point of a surrogate pair as the kernels compute it; equal to 0x10000 + ((h-0xD800)<<10) + (l-0xDC00)
    for every well-formed pair (spec lemma below); for an ill-formed low half the claim is void."""
    return (((h << 10) + BitVecVal(0xfca00000, 32)) | (l + BitVecVal(0xffff2400, 32))) + BitVecVal(0x10000, 32)

def s4_step(src, st):
    """One item of the string scanner: a plain byte, a two-character escape, \\uXXXX, or a surrogate pair."""
    p, n, status = st
    c = Select(src, p)
    e = Select(src, p + 1)
    ok1, h = hex4(src, p + 2)
    is_hi = (h & BitVecVal(0xfc00, 32)) == 0xd800
    ok2, l = hex4(src, p + 8)
    pair_ok = And(Select(src, p + 6) == 0x5c, Select(src, p + 7) == 0x75, ok2)
    cp2 = combine_surrogates(h, l)
    # outcomes
    run = lambda pp, nn: (pp, nn, BitVecVal(RUN, 8))
    fail = (p, n, BitVecVal(FAIL, 8))
    done = (p, n, BitVecVal(DONE, 8))
    def ite(c, a, b):
        return tuple(If(c, x, y) for x, y in zip(a, b))
    uni_pair = ite(And(pair_ok, ULE(cp2, 0x10ffff)), run(p + 12, n + utf8_len(cp2)), fail)
    uni = ite(Not(ok1), fail, ite(is_hi, uni_pair, run(p + 6, n + utf8_len(h))))
    esc = ite(e == 0x75, uni, ite(esc_valid(e), run(p + 2, n + 1), fail))
    nxt = ite(c == 0x22, done, ite(c == 0x5c, esc, run(p + 1, n + 1)))
    return ite(status == RUN, nxt, st)

def table_obligations(binary, insns):
    """digittoval / escape_map as assembled: every one of the 256 entries against hexval / esc_value."""
    obls = []
    lea = [i for i in insns if i.mnem == "lea" and i.comment_addr][0]
    base = lea.comment_addr
    dig = binary.read(base + 0x40, 256)
    esc = binary.read(base + 0x140, 256)
    bad_d, bad_e = [], []
    for c in range(256):
        is_hex = chr(c) in "0123456789abcdefABCDEF"
        want = int(chr(c), 16) if is_hex else 0xff
        if dig[c] != want:
            bad_d.append(c)
        wante = {0x22: 0x22, 0x5c: 0x5c, 0x2f: 0x2f, 0x62: 8, 0x66: 12, 0x6e: 10, 0x72: 13, 0x74: 9}.get(c, 0)
        if esc[c] != wante:
            bad_e.append(c)
    o = Obl("_parse_string.tables", "table#digittoval", BoolVal(not bad_d), [], ["C01", "C04"])
    o.note = "entries differing from hexval (0xff for non-hex): " + ",".join("0x%02x" % c for c in bad_d[:64])
    obls.append(o)
    o = Obl("_parse_string.tables", "table#escape_map", BoolVal(not bad_e), [], ["C01", "C04"])
    o.note = "entries differing: " + ",".join("0x%02x" % c for c in bad_e[:64])
    obls.append(o)
    q = binary.read(base + 0x20, 32)
    bsl = binary.read(base, 32)
    obls.append(Obl("_parse_string.tables", "table#needles", BoolVal(q == b'"' * 32 and bsl == b"\\" * 32), [], ["C01", "C04"]))
    return obls

def validate_only_obligations(binary, part=None, nparts=1):
    obls = []
    k = "_parse_string_validate_only.abi0"
    insns = binary.load_symbol(k)
    obls += table_obligations(binary, insns)
    P4 = ["C04", "C01"]
    # spec lemma: the kernels' surrogate arithmetic is the UTF-16 formula on well-formed pairs
    h, l = BitVec("sp_h", 32), BitVec("sp_l", 32)
    wf = [UGE(h, 0xd800), ULE(h, 0xdbff), UGE(l, 0xdc00), ULE(l, 0xdfff)]
    obls.append(Obl("speclemma/strings", "surrogate-formula", combine_surrogates(h, l) == BitVecVal(0x10000, 32) + ((h - 0xd800) << 10) + (l - 0xdc00), wf, P4))
    # locate loop head (target of the backward jb), fail exit and function entry
    head = None
    for i in insns:
        if i.mnem == "jb":
            t = int(i.ops[0].split()[0], 16)
            if t < i.addr:
                head = t
    if head is None:
        raise Unsupported("loop head not found in " + k)
    rets = [i.addr for i in insns if i.mnem == "ret"]
    # run the prologue to get constants and the frame, then generalise the loop state
    m = new_machine(binary, "vs")
    sp = m.regs["rsp"]
    for i, a in enumerate(["src", "pmax", "plen", "pdlen"]):
        m.store(sp + 8 + 8 * i, m.pointer(a), 64)
    maxv = BitVec("vs_max", 64)
    set64(m, "pmax", maxv)
    m.accesses = []
    pre = explore(m, binary, insns[0].addr, {head, rets[0]}, max_paths=8)
    base = [pm for pm, e in pre if e == head]
    if not base:
        raise Unsupported("prologue does not reach the loop")
    g = clone_machine(base[0])
    g.pc_cond, g.accesses = [], []
    P, N = BitVec("vs_P", 64), BitVec("vs_N", 64)
    g.regs["r13"] = simplify(g.ptrs["src"] + P)
    g.regs["rax"] = g.regs["r13"]
    g.regs["r14"] = N
    for r in ("rbx", "r12", "r15", "r8"):
        g.regs[r] = BitVec("vs_" + r, 64)
    g.regs["rsi"] = P      # loop invariant: rsi = r13 - rdi (set at the loop bottom, 0 on entry)
    src = g.mem["src"]
    wc = window_cases(binary, k, g, head, rets[0], src, P, N, maxv, P4, validate=True, part=part, nparts=nparts)
    if part is not None and part != 0:
        return wc
    obls += wc
    return obls

NPARTS = 16

def build_obligations(binary):
    return validate_only_obligations(binary)

TASK_PROPS = set("C01 C04 C05".split())

def tasks():
    return [("kernels3", "validate_only_obligations", {"part": i, "nparts": NPARTS}) for i in range(NPARTS)]


def window_cases(binary, k, g, head, ret_addr, src, P, N, maxv, props, validate, part=None, nparts=1):
    """Obligations for one 32-byte window of the string scanners.
    (1) mask lemma: the two vpmovmskb results at the loop head are the backslash / quote masks of the window;
    (2) for each position t of the first special byte (quote, backslash, or none) the code after the mask
        computation is executed with masks of exactly that shape and compared with S4: t plain items, then
        the quote (done) or one escape item."""
    obls = []
    hyp = [ULT(P, 1 << 40), ULT(N, 1 << 40), ULT(P, maxv), ULE(maxv, 1 << 40)]
    W = [Select(src, P + i) for i in range(32)]
    # (1) execute up to the instruction after the second vpmovmskb
    pc_, seen, post = head, 0, None
    lm = clone_machine(g)
    while post is None:
        ins = binary.insns[pc_]
        nxt = lm.step(ins)
        if ins.mnem == "vpmovmskb":
            seen += 1
            if seen == 2:
                post = nxt
        pc_ = nxt
    bsm = Concat(*reversed([If(W[i] == 0x5c, BitVecVal(1, 1), BitVecVal(0, 1)) for i in range(32)]))
    qm = Concat(*reversed([If(W[i] == 0x22, BitVecVal(1, 1), BitVecVal(0, 1)) for i in range(32)]))
    bs_reg = "rbx" if validate else "rcx"
    q_reg = "r12" if validate else "r14"
    obls.append(Obl(k, "window#mask-lemma", And(Extract(31, 0, lm.regs[bs_reg]) == bsm, Extract(31, 0, lm.regs[q_reg]) == qm,
                                                 Extract(63, 32, lm.regs[bs_reg]) == 0, Extract(63, 32, lm.regs[q_reg]) == 0), hyp, props))
    # spec lemma: an item that is neither a quote nor a backslash advances S4 by one byte in and one byte out
    lp, ln = BitVec("lm_p", 64), BitVec("lm_n", 64)
    c0 = Select(src, lp)
    s1 = s4_step(src, (lp, ln, BitVecVal(RUN, 8)))
    obls.append(Obl("speclemma/strings", "plain-item", And(s1[0] == lp + 1, s1[1] == ln + 1, s1[2] == RUN), [c0 != 0x22, c0 != 0x5c], props))
    # (2) cases
    B, Q = BitVec("w_B", 32), BitVec("w_Q", 32)
    frame_goals = []
    def link(bmask, qmask):
        return [(Extract(i, i, bmask) == 1) == (W[i] == 0x5c) for i in range(32)] + [(Extract(i, i, qmask) == 1) == (W[i] == 0x22) for i in range(32)]
    cases = []
    for t in range(32):
        sh = t + 1
        hiB = (B << sh) if sh < 32 else BitVecVal(0, 32)
        hiQ = (Q << sh) if sh < 32 else BitVecVal(0, 32)
        cases.append(("quote%02d" % t, hiB, hiQ | BitVecVal(1 << t, 32), t, "quote"))
        cases.append(("escape%02d" % t, hiB | BitVecVal(1 << t, 32), hiQ, t, "escape"))
    cases.append(("plain32", BitVecVal(0, 32), BitVecVal(0, 32), 32, "plain"))
    for ci, (cname, bmask, qmask, t, kind) in enumerate(cases):
        if part is not None and ci % nparts != part:
            continue
        gm = clone_machine(lm)
        gm.regs[bs_reg] = simplify(ZeroExt(32, bmask))
        gm.regs[q_reg] = simplify(ZeroExt(32, qmask))
        chyp = link(simplify(bmask), simplify(qmask))
        gm.pc_cond = list(hyp) + list(chyp)
        gm.accesses = []
        gm_trace0 = list(gm.trace)
        paths = explore(gm, binary, post, {head, ret_addr}, max_paths=400, check=True, check_timeout=300)
        # t plain items move S4 to (P+t, N+t) (spec lemma plain-item, applied t times); then one escape item
        st = (P + t, N + t, BitVecVal(RUN, 8))
        if kind == "escape":
            st = s4_step(src, st)
        after = s4_step(src, st)
        goals = []
        for pm, end in paths:
            pc = And(*pm.pc_cond)
            if end == head:
                P2 = simplify(pm.regs["r13"] - pm.ptrs["src"]) if validate else simplify(pm.regs["r13"] - pm.ptrs["src"])
                N2 = pm.regs["r14"] if validate else None
                goals.append(Or(Not(pc), And(st[2] == RUN, st[0] == P2, st[1] == N2, UGT(P2, P), ULE(P2, P + 44))))
            else:
                res = pm.load(pm.regs["rsp"] + (8 + 8 * 4), 64)
                ok = Extract(7, 0, res) != 0
                L, D = load64(pm, "plen"), load64(pm, "pdlen")
                succ = And(st[2] == RUN, st[0] == L, st[1] == D, after[2] == DONE)
                failed = Or(st[2] == FAIL, And(st[2] == RUN, UGE(st[0], maxv)))
                goals.append(Or(Not(pc), If(ok, succ, failed)))
            for akind, reg, off, n in pm.accesses:
                if akind == "load" and reg == "src":
                    frame_goals.append(Or(Not(And(pc, *chyp)), And(UGE(off + 20, P), ULE(off + n, P + 64))))
                if akind == "store" and reg not in ("stack", "plen", "pdlen"):
                    frame_goals.append(BoolVal(False))
        cover = Or(*[And(*pm.pc_cond) for pm, _ in paths]) if paths else BoolVal(False)
        if kind != "escape":
            obls.append(Obl(k, "window#" + cname, And(cover, *goals), hyp + chyp, props))
        else:
            # one obligation per path through the escape handling, named by its branch decisions
            obls.append(Obl(k, "window#%s.cover" % cname, cover, hyp + chyp, props))
            for (pm, end), gl in zip(paths, goals):
                bits = "".join(pm.trace[len(gm_trace0):]) or "0"
                obls.append(Obl(k, "window#%s.b%x_%d" % (cname, int(bits, 2), len(bits)), gl, hyp + chyp, props))
    obls.append(Obl(k, "window#frame%s" % ("" if part is None else ".%02d" % part), And(*frame_goals) if frame_goals else BoolVal(True), hyp, props + ["C05"]))
    if part is not None and part != 0:
        return [o for o in obls if o.name.startswith("window#escape") or o.name.startswith("window#quote") or o.name.startswith("window#plain") or o.name.startswith("window#frame")]
    # every pair of masks has one of the 65 shapes
    b2, q2 = BitVec("w_b2", 32), BitVec("w_q2", 32)
    shapes = []
    for t in range(32):
        low = lambda v: (Extract(t - 1, 0, v) == 0) if t > 0 else BoolVal(True)
        shapes.append(And(low(b2), low(q2), Extract(t, t, q2) == 1, Extract(t, t, b2) == 0))
        shapes.append(And(low(b2), low(q2), Extract(t, t, b2) == 1, Extract(t, t, q2) == 0))
    shapes.append(And(b2 == 0, q2 == 0))
    obls.append(Obl(k, "window#cases-exhaustive", Or(*shapes), [(b2 & q2) == 0], props))
    return obls
