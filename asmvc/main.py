#!/usr/bin/env python3
"""asmvc: verify the amd64 kernels as assembled and linked from the current working tree.
usage: python3-vt main.py --repo /repo --out result.json [--only regexp] [--scratch dir]"""
import argparse, json, os, re, subprocess, sys, time, tempfile, shutil
from concurrent.futures import ProcessPoolExecutor
sys.path.insert(0, os.path.dirname(os.path.abspath(__file__)))

def build_binary(repo, scratch):
    env = dict(os.environ, GOFLAGS="-mod=mod", GOPROXY="off", GOSUMDB="off", GOTOOLCHAIN="local")
    out = os.path.join(scratch, "sj.test")
    r = subprocess.run(["go", "test", "-c", "-tags", "verif", "-o", out, "."], cwd=repo, env=env, capture_output=True, text=True)
    if r.returncode != 0:
        raise RuntimeError("cannot build test binary: " + r.stderr[-2000:])
    return out

def work(args):
    idx, smt2, timeout = args
    from z3 import Solver, unsat, sat
    import time
    sv = Solver()
    sv.set("timeout", timeout)
    sv.from_string(smt2)
    t0 = time.time()
    r = sv.check()
    t = time.time() - t0
    if r == unsat:
        return idx, "discharged", t, ""
    if r == sat:
        mdl = sv.model()
        txt = "\n".join("%s = %s" % (d.name(), mdl[d]) for d in sorted(mdl.decls(), key=lambda d: d.name())[:300])
        return idx, "failed", t, txt
    return idx, "undecided", t, ""

def ALL(b):
    import kernels
    obls = kernels.build_obligations(b)
    try:
        import kernels2
        obls += kernels2.build_obligations(b)
    except ImportError:
        pass
    return obls

def main():
    ap = argparse.ArgumentParser()
    ap.add_argument("--repo", default="/repo")
    ap.add_argument("--out", default="")
    ap.add_argument("--only", default="")
    ap.add_argument("--scratch", default="")
    ap.add_argument("--timeout", type=int, default=60)
    ap.add_argument("-j", type=int, default=12)
    a = ap.parse_args()
    t0 = time.time()
    scratch = a.scratch or tempfile.mkdtemp(prefix="asmvc.", dir="/var/tmp")
    res = {"engine": "asmvc", "obligations": [], "errors": []}
    try:
        binpath = build_binary(a.repo, scratch)
        from disasm import Binary
        b = Binary(binpath)
        try:
            obls = ALL(b)
        except Exception as e:
            import traceback
            res["errors"].append("asmvc: %s: %s" % (type(e).__name__, e))
            res["trace"] = traceback.format_exc()[-3000:]
            obls = []
        sel = [i for i, o in enumerate(obls) if not a.only or re.search(a.only, o.kernel + "/" + o.name)]
        results = {}
        with ProcessPoolExecutor(max_workers=a.j) as ex:
            from z3 import Solver, Not
            jobs = []
            for i in sel:
                sv = Solver()
                for h in obls[i].hyps:
                    sv.add(h)
                sv.add(Not(obls[i].goal))
                jobs.append((i, sv.to_smt2(), a.timeout * 1000))
            for idx, status, t, model in ex.map(work, jobs):
                results[idx] = (status, t, model)
        for i in sel:
            o = obls[i]
            st, t, model = results[i]
            res["obligations"].append({"id": "asmvc/%s/%s" % (o.kernel, o.name), "kernel": o.kernel, "name": o.name, "props": o.props,
                                       "status": st, "time_s": round(t, 3), "model": model[:6000], "backend": "z3-5.1-api"})
        res["instructions"] = len(b.insns)
    except Exception as e:
        res["errors"].append("asmvc: %s: %s" % (type(e).__name__, e))
    finally:
        if not a.scratch:
            shutil.rmtree(scratch, ignore_errors=True)
    res["wall_s"] = round(time.time() - t0, 2)
    if a.out:
        json.dump(res, open(a.out, "w"), indent=1)
    else:
        for o in res["obligations"]:
            print(o["status"], o["id"], o["time_s"])
        for e in res["errors"]:
            print("ERROR", e)
        if res.get("trace"): print(res["trace"])
    bad = [o for o in res["obligations"] if o["status"] != "discharged"]
    sys.exit(1 if bad or res["errors"] else 0)

if __name__ == "__main__":
    main()
