#!/usr/bin/env python3
"""asmvc: verify the amd64 kernels as assembled and linked from the current working tree.
usage: python3-vt main.py --repo /repo --out result.json [--only regexp] [--scratch dir]"""
import argparse, json, os, re, subprocess, sys, time, tempfile, shutil
from concurrent.futures import ProcessPoolExecutor
sys.path.insert(0, os.path.dirname(os.path.abspath(__file__)))

def build_binary(repo, scratch):
    env = dict(os.environ, GOFLAGS="-mod=mod", GOPROXY="off", GOSUMDB="off", GOTOOLCHAIN="local")
    out = os.path.join(scratch, "sj.test")
    r = subprocess.run(["go", "test", "-c", "-tags", "verif", "-o", out, "."], cwd=repo, env=env, capture_output=True, text=True)
    if r.returncode != 0:
        raise RuntimeError("cannot build test binary: " + r.stderr[-2000:])
    return out

def work(args):
    """Decide one obligation: every conjunct of its goal separately (same hypotheses)."""
    idx, smt2s, timeout = args
    from z3 import Solver, unsat, sat
    import time
    status, total, model = "discharged", 0.0, ""
    for smt2 in smt2s:
        sv = Solver()
        sv.set("timeout", timeout)
        sv.from_string(smt2)
        t0 = time.time()
        r = sv.check()
        total += time.time() - t0
        if r == unsat:
            continue
        if r == sat:
            mdl = sv.model()
            model = "\n".join("%s = %s" % (d.name(), mdl[d]) for d in sorted(mdl.decls(), key=lambda d: d.name())[:300])
            return idx, "failed", total, model
        status = "undecided"
    return idx, status, total, model

def conjuncts(g, depth=3):
    from z3 import is_and
    if depth > 0 and is_and(g):
        out = []
        for c in g.children():
            out += conjuncts(c, depth - 1)
        return out
    return [g]

def build_task(args):
    """Build one group of obligations in a worker; returns serialisable records (goal as SMT-LIB text)."""
    binpath, mod, fn, kw = args
    import importlib, traceback
    from disasm import Binary
    from z3 import Solver, Not
    try:
        b = Binary(binpath)
        obls = getattr(importlib.import_module(mod), fn)(b, **kw)
    except Exception as e:
        return {"error": "%s.%s%s: %s: %s" % (mod, fn, kw, type(e).__name__, str(e)[:500]), "trace": traceback.format_exc()[-1500:], "obls": [], "insns": 0}
    out = []
    for o in obls:
        parts = conjuncts(o.goal)
        if len(parts) > 96:
            parts = [o.goal]
        texts = []
        for g in parts:
            sv = Solver()
            for h in o.hyps:
                sv.add(h)
            sv.add(Not(g))
            texts.append(sv.to_smt2())
        out.append({"kernel": o.kernel, "name": o.name, "props": o.props, "note": getattr(o, "note", ""), "smt2": texts})
    return {"obls": out, "insns": len(b.insns)}

def all_tasks(prop=""):
    import kernels, kernels2, kernels3
    out = []
    for m in (kernels, kernels2, kernels3):
        if not prop or prop in m.TASK_PROPS:
            out += m.tasks()
    return out

def main():
    ap = argparse.ArgumentParser()
    ap.add_argument("--repo", default="/repo")
    ap.add_argument("--out", default="")
    ap.add_argument("--only", default="")
    ap.add_argument("--scratch", default="")
    ap.add_argument("--timeout", type=int, default=60)
    ap.add_argument("-j", type=int, default=14)
    ap.add_argument("--prop", default="", help="only build the kernels serving this property")
    ap.add_argument("--skip", default="", help="JSON file with a list of obligation ids not to solve (residuals)")
    a = ap.parse_args()
    t0 = time.time()
    scratch = a.scratch or tempfile.mkdtemp(prefix="asmvc.", dir="/var/tmp")
    res = {"engine": "asmvc", "obligations": [], "errors": []}
    try:
        binpath = build_binary(a.repo, scratch)
        recs = []
        with ProcessPoolExecutor(max_workers=a.j) as ex:
            for r in ex.map(build_task, [(binpath,) + t for t in all_tasks(a.prop)]):
                if r.get("error"):
                    res["errors"].append("asmvc: " + r["error"])
                    res["trace"] = r.get("trace", "")
                recs += r["obls"]
                res["instructions"] = max(res.get("instructions", 0), r.get("insns", 0))
        skip = set(json.load(open(a.skip))) if a.skip else set()
        sel = [i for i, o in enumerate(recs) if (not a.only or re.search(a.only, o["kernel"] + "/" + o["name"]))
               and ("asmvc/%s/%s" % (o["kernel"], o["name"])) not in skip]
        res["skipped_residuals"] = len(recs) - len(sel) if skip else 0
        results = {}
        with ProcessPoolExecutor(max_workers=a.j) as ex:
            for idx, status, t, model in ex.map(work, [(i, recs[i]["smt2"], a.timeout * 1000) for i in sel]):
                results[idx] = (status, t, model)
        # second chance for obligations the solver did not decide in time (machine load): alone-ish, five times the budget
        again = [i for i in sel if results[i][0] == "undecided"]
        if again and not os.environ.get("ASMVC_NO_RETRY"):
            with ProcessPoolExecutor(max_workers=max(2, a.j // 3)) as ex:
                for idx, status, t, model in ex.map(work, [(i, recs[i]["smt2"], a.timeout * 5000) for i in again]):
                    results[idx] = (status, results[idx][1] + t, model)
            res["retried"] = len(again)
        for i in sel:
            o = recs[i]
            st, t, model = results[i]
            if o["note"] and st != "discharged":
                model = o["note"] + "\n" + model
            res["obligations"].append({"id": "asmvc/%s/%s" % (o["kernel"], o["name"]), "kernel": o["kernel"], "name": o["name"], "props": o["props"],
                                       "status": st, "time_s": round(t, 3), "model": model[:6000], "backend": "z3-5.1-api"})

    except Exception as e:
        res["errors"].append("asmvc: %s: %s" % (type(e).__name__, e))
    finally:
        if not a.scratch:
            shutil.rmtree(scratch, ignore_errors=True)
    res["wall_s"] = round(time.time() - t0, 2)
    if a.out:
        json.dump(res, open(a.out, "w"), indent=1)
    else:
        for o in res["obligations"]:
            print(o["status"], o["id"], o["time_s"])
        for e in res["errors"]:
            print("ERROR", e)
        if res.get("trace"): print(res["trace"])
    bad = [o for o in res["obligations"] if o["status"] != "discharged"]
    sys.exit(1 if bad or res["errors"] else 0)

if __name__ == "__main__":
    main()
