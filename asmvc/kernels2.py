"""Loops: __flatten_bits_incremental (unrolled to its 64-bit operand width, complete) and the two
top-level _find_structural_bits_in_slice loops (one iteration between cut points; masked tail load;
exit decision), with __flatten_bits_incremental applied by contract at its call site."""
import copy
from z3 import (BitVec, BitVecVal, Bool, BoolVal, If, Extract, Concat, ZeroExt, simplify, Solver, unsat, sat, Not, And, Or,
                Select, Store, is_bv_value, LShR, ULT, ULE, UGE, UGT, Array, BitVecSort, is_true, is_false)
from x86 import Machine, Unsupported, bv
import specs as S
from kernels import Obl, new_machine, entry, sym, load64, set64, fresh_bytes, bit01

def clone_machine(m):
    n = Machine.__new__(Machine)
    n.bin, n.name = m.bin, m.name
    n.regs, n.vec, n.k = dict(m.regs), dict(m.vec), dict(m.k)
    n.flags, n.mem, n.ptrs = dict(m.flags), dict(m.mem), m.ptrs
    n.pc_cond, n.accesses = list(m.pc_cond), list(m.accesses)
    n.steps, n.trace = m.steps, list(m.trace)
    return n

def feasible(conds, timeout=5000):
    s = Solver()
    s.set("timeout", timeout)
    for c in conds:
        s.add(c)
    return s.check() != unsat

def explore(m, binary, start, stops, hooks=None, max_paths=400, max_steps=4000, check=True, check_timeout=5000):
    """All paths from start until an address in stops (or return to caller: pc None). Returns [(machine, end_pc)]."""
    out = []
    work = [(m, start)]
    while work:
        mm, pc = work.pop()
        first = True
        while True:
            if pc is None or (pc in stops and not first):
                out.append((mm, pc))
                break
            first = False
            if hooks and pc in hooks:
                pc = hooks[pc](mm)
                continue
            ins = binary.insns.get(pc)
            if ins is None:
                raise Unsupported("execution left the loaded kernels at %x" % pc)
            try:
                r = mm.step(ins)
            except Unsupported as e:
                raise Unsupported("%s at [%s] rsp=%s" % (e, ins.text, mm.regs["rsp"]))
            if mm.steps > max_steps:
                raise Unsupported("step budget exceeded")
            if isinstance(r, tuple):
                _, c, taken, fall = r
                c = simplify(c)
                if is_true(c):
                    pc = taken
                elif is_false(c):
                    pc = fall
                else:
                    m2 = clone_machine(mm)
                    m2.pc_cond.append(Not(c))
                    mm.pc_cond.append(c)
                    m2.trace.append("0")
                    mm.trace.append("1")
                    ok1, ok2 = (feasible(mm.pc_cond, check_timeout), feasible(m2.pc_cond, check_timeout)) if check else (True, True)
                    if ok2:
                        work.append((m2, fall))
                    if not ok1:
                        break
                    pc = taken
                if len(out) + len(work) > max_paths:
                    raise Unsupported("path budget exceeded")
            else:
                pc = r
    return out

# ---------------------------------------------------------------------------
# flatten: spec as a position-by-position loop

def flatten_step(state, hit, base_off=0):
    """One position of the flatten spec: the gap counter grows; on a set bit the gap is emitted as a
    32-bit delta at indexes[idx], added to the position, and the counter restarts."""
    mem, idx, g, pos = state
    g = g + 1
    addr = BitVecVal(base_off, 64) + 4 * idx
    m2 = mem
    for b in range(4):
        m2 = Store(m2, addr + b, Extract(8 * b + 7, 8 * b, g))
    if hit is True:
        return (m2, idx + 1, BitVecVal(0, 64), pos + g)
    if hit is False:
        return (mem, idx, g, pos)
    return (If(hit, m2, mem), If(hit, idx + 1, idx), If(hit, BitVecVal(0, 64), g), If(hit, pos + g, pos))

def spec_flatten(mask, carried, position, index, mem, base_off=0):
    """Position-by-position fold of flatten_step over the 64 bits of mask. Returns (mem', index', carried', position')."""
    st = (mem, index, carried, position)
    for k in range(64):
        st = flatten_step(st, Extract(k, k, mask) == 1, base_off)
    mem, idx, g, pos = st
    return mem, simplify(idx), simplify(g), simplify(pos)

def popcount64(v):
    s = BitVecVal(0, 64)
    for k in range(64):
        s = s + ZeroExt(63, Extract(k, k, v))
    return s

def flatten_obligations(binary):
    """Induction over the set bits of the mask. Invariant at the loop head (S positions consumed):
    kernel (index, position, memory) = spec state after S positions with gap counter 0, rax = mask >> S, r8 = S.
    Step obligations are checked for every run length t in 0..63 (t clear bits then a set bit) against t+1
    applications of flatten_step; the exit obligation adds the remaining clear positions to the carried gap."""
    obls = []
    insns = binary.load_symbol("__flatten_bits_incremental.abi0")
    k = "__flatten_bits_incremental.abi0"
    P = ["C01", "C06", "C02"]
    ent = insns[0].addr
    # loop head of the second loop = target of the backward jmp; exit = target of jb
    head = [int(i.ops[0].split()[0], 16) for i in insns if i.mnem == "jmp"][0]
    done = [int(i.ops[0].split()[0], 16) for i in insns if i.mnem == "jb"][0]
    g_first, g_loop, g_frame = [], [], []
    for phase in ("first", "loop"):
        for t in range(64):
            m = new_machine(binary, "fl%s%d" % (phase, t))
            M, carried, position, index, S = (BitVec("fl_%s" % n, 64) for n in ("M", "carried", "position", "index", "S"))
            m.regs["rax"], m.regs["r10"], m.regs["rbx"] = M, position, index
            m.regs["rdi"] = m.pointer("indexes")
            mem0 = m.mem["indexes"]
            # run of t clear bits followed by a set bit at the bottom of M
            hyp = [Extract(t, 0, M) == BitVecVal(1 << t, t + 1)]
            if phase == "first":
                m.regs["rdx"] = carried
                start, g0, S0 = ent, carried, BitVecVal(0, 64)
            else:
                if t == 63:
                    continue   # at the loop head at least one position has been consumed: bit 63 of rax is clear
                m.regs["rdx"] = BitVecVal(0, 64)
                m.regs["r8"] = S
                start, g0, S0 = head, BitVecVal(0, 64), S
                hyp.append(ULT(M, BitVecVal(1 << 63, 64)))
            m.pc_cond = list(hyp)
            paths = explore(m, binary, start, {head}, max_paths=4)
            st = (mem0, index, g0, position)
            for j in range(t):
                st = flatten_step(st, False)
            st = flatten_step(st, True)
            smem, sidx, sg, spos = st
            j = BitVec("fl_j", 64)
            goals = []
            for pm, end in paths:
                pc = And(*pm.pc_cond)
                goals.append(Or(Not(pc), And(end == head if isinstance(end, bool) else BoolVal(end == head),
                                             pm.regs["rbx"] == sidx, pm.regs["r10"] == spos, pm.regs["rdx"] == 0,
                                             pm.regs["rax"] == LShR(M, t + 1), ULT(pm.regs["rax"], BitVecVal(1 << 63, 64)), pm.regs["r8"] == S0 + t + 1,
                                             Select(pm.mem["indexes"], j) == Select(smem, j))))
                g_frame.append(BoolVal(all(reg in ("indexes", "stack") for kind, reg, off, n in pm.accesses if kind == "store")))
                for kind, reg, off, n in pm.accesses:
                    if kind == "store" and reg == "indexes":
                        g_frame.append(Or(Not(pc), And(off == 4 * index, n == 4)))
            goal = And(BoolVal(len(paths) == 1), *goals)
            (g_first if phase == "first" else g_loop).append((t, goal, hyp))
    for t, goal, hyp in g_first:
        obls.append(Obl(k, "first#run%02d" % t, goal, hyp, P))
    for t, goal, hyp in g_loop:
        obls.append(Obl(k, "loop#run%02d" % t, goal, hyp, P))
    obls.append(Obl(k, "frame#writes", And(*g_frame), [], P + ["C05", "C07"]))
    # exit: M == 0 at entry (nothing consumed, gap = carried) and at the loop head (gap 0, S consumed)
    for phase in ("first", "loop"):
        m = new_machine(binary, "flx" + phase)
        M, carried, position, index, S = (BitVec("fl_%s" % n, 64) for n in ("M", "carried", "position", "index", "S"))
        m.regs["rax"], m.regs["r10"], m.regs["rbx"] = M, position, index
        m.regs["rdi"] = m.pointer("indexes")
        mem0 = m.mem["indexes"]
        if phase == "first":
            m.regs["rdx"] = carried
            start, g0, S0 = ent, carried, BitVecVal(0, 64)
        else:
            m.regs["rdx"] = BitVecVal(0, 64)
            m.regs["r8"] = S
            start, g0, S0 = head, BitVecVal(0, 64), S
        m.pc_cond = [M == 0]
        paths = explore(m, binary, start, set(), max_paths=4)
        jj = BitVec("fl_j", 64)
        goals = [BoolVal(len(paths) == 1)]
        for pm, end in paths:
            # remaining 64-S positions are clear: the gap grows by 64-S, nothing else changes
            goals.append(And(pm.regs["rbx"] == index, pm.regs["r10"] == position, pm.regs["rdx"] == g0 + (64 - S0),
                             Select(pm.mem["indexes"], jj) == Select(mem0, jj)))
        obls.append(Obl(k, "exit#" + phase, And(*goals), [M == 0], P))
    # spec-side lemma: n clear positions only add n to the gap counter (checked for every n)
    lem = []
    for n in range(65):
        mem0 = Array("lm", BitVecSort(64), BitVecSort(8))
        i0, g0, p0 = BitVec("lm_i", 64), BitVec("lm_g", 64), BitVec("lm_p", 64)
        st = (mem0, i0, g0, p0)
        for _ in range(n):
            st = flatten_step(st, False)
        lem.append(And(st[1] == i0, st[2] == g0 + n, st[3] == p0))
    obls.append(Obl("speclemma/flatten", "clear-run-adds-to-gap", And(*lem), [], P))
    # spec-side facts about one position of the fold (their 64-fold consequences are used by the Go-level contract
    # of the slice kernels: position+1+carried counts consumed bytes; the index grows by at most one per position;
    # a hit resets the gap)
    mem0 = Array("ls", BitVecSort(64), BitVecSort(8))
    i0, g0, p0, hit = BitVec("ls_i", 64), BitVec("ls_g", 64), BitVec("ls_p", 64), Bool("ls_hit")
    m1, i1, g1, p1 = flatten_step((mem0, i0, g0, p0), hit)
    obls.append(Obl("speclemma/flatten", "step-counts-bytes", p1 + g1 + 1 == p0 + g0 + 2, [], P + ["C05", "C07"]))
    obls.append(Obl("speclemma/flatten", "step-index-monotone", And(If(hit, i1 == i0 + 1, i1 == i0), If(hit, g1 == 0, g1 == g0 + 1)), [], P + ["C05", "C07"]))
    # their 64-position consequences, by induction over the positions: Inv(k) holds of the fold state after k positions;
    # obligation k shows Inv(k) => Inv(k+1) for an arbitrary state satisfying Inv(k). Inv(64) is what the Go-level
    # contract of the slice kernels uses (position+1+carried counts consumed bytes, index grows iff a bit is set, ...)
    mk, cr, ps, ix = BitVec("lf_mask", 64), BitVec("lf_car", 64), BitVec("lf_pos", 64), BitVec("lf_idx", 64)
    def inv(kk, i, g, p):
        low = (mk & BitVecVal((1 << kk) - 1, 64))
        return And(p + g + 1 == ps + cr + 1 + kk, ULE(i - ix, kk),
                   If(low == 0, And(i == ix, g == cr + kk, p == ps), And(i != ix, ULT(g, kk))))
    si, sg, sp = BitVec("lf_i", 64), BitVec("lf_g", 64), BitVec("lf_p", 64)
    steps = []
    for kk in range(64):
        m1, i1, g1, p1 = flatten_step((mem0, si, sg, sp), Extract(kk, kk, mk) == 1)
        steps.append(Or(Not(inv(kk, si, sg, sp)), inv(kk + 1, i1, g1, p1)))
    obls.append(Obl("speclemma/flatten", "fold-invariant-base", inv(0, ix, cr, ps), [], P + ["C05", "C07"]))
    for kk in range(0, 64, 8):
        obls.append(Obl("speclemma/flatten", "fold-invariant-step%02d-%02d" % (kk, kk + 7), And(*steps[kk:kk + 8]), [], P + ["C05", "C07"]))
    return obls

# ---------------------------------------------------------------------------
# top-level loops

ARGS_AVX2 = ["buf", "len", "p3", "inside", "qbits", "err", "ws", "st", "pred", "indexes", "index", "indexes_len", "carried", "position", "ndjson"]
ARGS_AVX512 = ["buf", "len", "p3", "inside", "err", "pred", "indexes", "index", "indexes_len", "carried", "position", "ndjson"]

class TopLevel:
    def __init__(self, binary, fam):
        self.binary, self.fam = binary, fam
        self.symname = "_find_structural_bits_in_slice" + ("_avx512" if fam == "avx512" else "") + ".abi0"
        self.insns = binary.load_symbol(self.symname)
        self.args = ARGS_AVX2 if fam == "avx2" else ARGS_AVX512
        self.flatten_entry = entry(binary, "__flatten_bits_incremental.abi0")
        # locate prologue end (after the stack-split check) and the cut point loop_after_load:
        # the jump target of the last unconditional jmp inside the function that goes backwards to a push rcx
        self.start = self.insns[0].addr
        if self.insns[0].mnem == "mov" and "fs:" in self.insns[0].text and self.insns[2].mnem == "jbe":
            self.start = self.insns[3].addr
            self.morestack = int(self.insns[2].ops[0].split()[0], 16)
        self.cut = None
        for ins in self.insns:
            if ins.mnem == "jmp":
                t = int(ins.ops[0].split()[0], 16)
                ti = binary.insns.get(t)
                if ti is not None and t < ins.addr and ti.mnem == "push":
                    self.cut = t
        if self.cut is None:
            raise Unsupported("cut point loop_after_load not found in " + self.symname)
        self.ret_addr = [i.addr for i in self.insns if i.mnem == "ret"][0]

    def fresh(self, tag):
        """Machine at function entry with symbolic arguments laid out per ABI0 ([rsp+8+8*i])."""
        m = new_machine(self.binary, self.fam + tag)
        sp = m.regs["rsp"]
        vals = {}
        for i, a in enumerate(self.args):
            if a in ("len", "indexes_len", "ndjson"):
                v = BitVec("arg_" + a, 64)
            else:
                v = m.pointer(a)
            vals[a] = v
            m.store(sp + 8 + 8 * i, v, 64)
        m.accesses = []
        self.result_off = 8 + 8 * len(self.args)
        return m, vals

def block_bytes(m, fam):
    if fam == "avx2":
        lo, hi = Extract(255, 0, m.vec[8]), Extract(255, 0, m.vec[9])
        return [Extract(8 * i + 7, 8 * i, lo) for i in range(32)] + [Extract(8 * i + 7, 8 * i, hi) for i in range(32)]
    return [Extract(8 * i + 7, 8 * i, m.vec[8]) for i in range(64)]

_clobber_cache = {}

def clobbers(binary, symname):
    """Registers a kernel modifies, found by one execution on a fresh machine (used to havoc at call sites)."""
    if symname in _clobber_cache:
        return _clobber_cache[symname]
    from kernels import run_to_ret
    m = new_machine(binary, "clob")
    for r in ("rax", "rbx", "rcx", "rdx", "rsi", "rdi", "r8", "r9", "r10", "r11", "r12"):
        m.regs[r] = m.pointer("c_" + r)
    before = (dict(m.regs), dict(m.vec), dict(m.k))
    m.regs["rsp"] = simplify(m.regs["rsp"] - 8)
    m.store(m.regs["rsp"], BitVec("clob_ret", 64), 64)
    run_to_ret(m, binary, entry(binary, symname))
    regs = [r for r in m.regs if r != "rsp" and not m.regs[r].eq(before[0][r])]
    vecs = [i for i in m.vec if not m.vec[i].eq(before[1][i])]
    ks = [i for i in m.k if not m.k[i].eq(before[2][i])]
    _clobber_cache[symname] = (regs, vecs, ks)
    return _clobber_cache[symname]

def contract_hooks(binary, fam, counter):
    """Call-site contracts of the straight-line sub-kernels (each proved against the same S5 functions in kernels.py)."""
    hooks = {}
    def ret(m):
        ra = simplify(m.load(m.regs["rsp"], 64))
        m.regs["rsp"] = simplify(m.regs["rsp"] + 8)
        return ra.as_long()
    def havoc(m, symname, keep=()):
        regs, vecs, ks = clobbers(binary, symname)
        counter[0] += 1
        for r in regs:
            if r not in keep:
                m.regs[r] = BitVec("hv_%s_%d" % (r, counter[0]), 64)
        for i in vecs:
            m.vec[i] = BitVec("hv_zmm%d_%d" % (i, counter[0]), 512)
        for i in ks:
            if ("k%d" % i) not in keep:
                m.k[i] = BitVec("hv_k%d_%d" % (i, counter[0]), 64)
        m.flags = {}
    def odd(m):
        bs = block_bytes(m, fam)
        p = m.regs["rdx"]
        prev = m.load(p, 64)
        ends, carry = S.spec_odd_ends(bs, prev == 1)
        havoc(m, sym("__find_odd_backslash_sequences", fam))
        m.regs["rax"] = ends
        m.store(p, If(carry, BitVecVal(1, 64), BitVecVal(0, 64)), 64)
        return ret(m)
    def quote(m):
        bs = block_bytes(m, fam)
        oddends, pin = m.regs["rdx"], m.regs["rcx"]
        prev = m.load(pin, 64)
        qb, qm, inside, err = S.spec_quotes(bs, oddends, prev != 0)
        if fam == "avx2":
            pq, pe = m.regs["r8"], m.regs["r9"]
            e0 = m.load(pe, 64)
        else:
            e0 = m.k[4]
        havoc(m, sym("__find_quote_mask_and_bits", fam))
        if fam == "avx2":
            m.store(pq, qb, 64)
            m.store(pe, e0 | err, 64)
        else:
            m.k[6] = qb
            m.k[4] = simplify(e0 | err)
        m.regs["rax"] = qm
        m.store(pin, If(inside, BitVecVal(-1, 64), BitVecVal(0, 64)), 64)
        return ret(m)
    def ws(m):
        bs = block_bytes(m, fam)
        w, st = S.spec_whitespace(bs), S.spec_structurals(bs)
        if fam == "avx2":
            pst, pws = m.regs["rcx"], m.regs["rdx"]
        havoc(m, sym("__find_whitespace_and_structurals", fam))
        if fam == "avx2":
            m.store(pst, st, 64)
            m.store(pws, w, 64)
        else:
            m.k[5], m.k[7] = st, w
        return ret(m)
    def fin(m):
        if fam == "avx2":
            st, w, qb = m.regs["rdi"], m.regs["rsi"], m.regs["rcx"]
        else:
            st, w, qb = m.k[5], m.k[7], m.k[6]
        qm, pp = m.regs["rdx"], m.regs["r8"]
        prev = m.load(pp, 64)
        fs, pred = S.spec_finalize(st, w, qm, qb, prev == 1)
        havoc(m, sym("__finalize_structurals", fam), keep=("rdx",))
        m.regs["rax"] = fs
        m.store(pp, If(pred, BitVecVal(1, 64), BitVecVal(0, 64)), 64)
        return ret(m)
    def nl(m):
        bs = block_bytes(m, fam)
        qm = m.regs["rdx"]
        r = S.spec_newline(bs, qm)
        havoc(m, sym("__find_newline_delimiters", fam), keep=("rax",))
        m.regs["rbx"] = r
        return ret(m)
    for name, fn in (("__find_odd_backslash_sequences", odd), ("__find_quote_mask_and_bits", quote), ("__find_whitespace_and_structurals", ws),
                     ("__finalize_structurals", fin), ("__find_newline_delimiters", nl)):
        hooks[entry(binary, sym(name, fam))] = fn
    return hooks

from z3 import Function, ArraySort
_B64 = BitVecSort(64)
_ARR = ArraySort(BitVecSort(64), BitVecSort(8))
FL_IDX = Function("flatten_index", _B64, _B64, _B64, _B64, _B64)
FL_CAR = Function("flatten_carried", _B64, _B64, _B64, _B64, _B64)
FL_POS = Function("flatten_position", _B64, _B64, _B64, _B64, _B64)
FL_MEM = Function("flatten_mem", _ARR, _B64, _B64, _B64, _B64, _ARR)

def flatten_hook(tl, record, cut_lemma=None):
    def hook(m):
        mask, carried, position, index, base = m.regs["rax"], m.regs["rdx"], m.regs["r10"], m.regs["rbx"], m.regs["rdi"]
        record.append({"mask": mask, "carried": carried, "position": position, "index": index, "base": base, "pc": list(m.pc_cond)})
        if cut_lemma is not None:
            # cut: "the mask handed to flatten is the S5 mask" is discharged as iter#flatten-mask under exactly this
            # path condition; from here on it is used as a lemma
            m.pc_cond.append(mask == cut_lemma)
            mask = cut_lemma
        reg, off = m._resolve(base)
        # the results are the (uninterpreted) flatten functions of the arguments; __flatten_bits_incremental is
        # proved to compute the position-by-position fold separately, so only congruence is needed here
        sidx, scar, spos = FL_IDX(mask, carried, position, index), FL_CAR(mask, carried, position, index), FL_POS(mask, carried, position, index)
        m.mem[reg] = FL_MEM(m.mem[reg], mask, carried, position, index)
        m.accesses.append(("store", reg, simplify(off + 4 * index), 256))
        m.regs["rbx"], m.regs["rdx"], m.regs["r10"] = sidx, scar, spos
        for r in ("rax", "rcx", "r8", "r9"):
            m.regs[r] = BitVec("clob_%s_%d" % (r, len(record)), 64)
        m.flags = {}
        # return to caller
        ra = simplify(m.load(m.regs["rsp"], 64))
        m.regs["rsp"] = simplify(m.regs["rsp"] + 8)
        return ra.as_long()
    return hook

def state_words(m, fam):
    w = {"carry": load64(m, "p3"), "inside": load64(m, "inside"), "err": load64(m, "err"), "pred": load64(m, "pred"),
         "index": load64(m, "index"), "carried": load64(m, "carried"), "position": load64(m, "position")}
    return w

def block_spec(bs, st, ndjson):
    """One 64-byte block of stage 1 in terms of S5: returns new carried state and the flatten mask."""
    odd, carry = S.spec_odd_ends(bs, st["carry"] == 1)
    qb, qm, inside, err = S.spec_quotes(bs, odd, st["inside"] != 0)
    ws, sr = S.spec_whitespace(bs), S.spec_structurals(bs)
    fs, pred = S.spec_finalize(sr, ws, qm, qb, st["pred"] == 1)
    nl = S.spec_newline(bs, qm)
    mask = If(ndjson != 0, fs | nl, fs)
    return {"carry": If(carry, BitVecVal(1, 64), BitVecVal(0, 64)), "inside": If(inside, BitVecVal(-1, 64), BitVecVal(0, 64)),
            "err": st["err"] | err, "pred": If(pred, BitVecVal(1, 64), BitVecVal(0, 64))}, simplify(mask)

def toplevel_obligations(binary, fam):
    obls = []
    tl = TopLevel(binary, fam)
    k = tl.symname
    P = ["C01", "C06"]
    # ---- T1/T2: one iteration from the cut point with an arbitrary block in Y8:Y9 / Z8
    m, a = tl.fresh("it")
    bs = fresh_bytes("blk")
    from kernels import input_block, run_inits
    # reach the function body: set up frame as the prologue does (push rbp; mov rbp,rsp), then two pushes happen at the cut
    pre = explore(m, binary, tl.start, {tl.cut, tl.ret_addr}, hooks=None, max_paths=50)
    # take any path that reached the cut to get the frame layout; then generalise registers
    cut_states = [pm for pm, pc in pre if pc == tl.cut]
    if not cut_states:
        raise Unsupported("no path reaches the cut point in " + k)
    base = cut_states[0]
    g = clone_machine(base)
    g.pc_cond = []
    g.accesses = []
    ax, cx = BitVec("it_ax", 64), BitVec("it_cx", 64)
    g.regs["rax"], g.regs["rcx"] = ax, cx
    for r in ("rbx", "rdx", "rsi", "rdi", "r8", "r9", "r10", "r11", "r12"):
        g.regs[r] = BitVec("it_%s" % r, 64)
    input_block(g, fam, bs)
    st0 = {n: BitVec("st_" + n, 64) for n in ("carry", "inside", "err", "pred", "index", "carried", "position")}
    set64(g, "p3", st0["carry"]); set64(g, "inside", st0["inside"]); set64(g, "err", st0["err"]); set64(g, "pred", st0["pred"])
    set64(g, "index", st0["index"]); set64(g, "carried", st0["carried"]); set64(g, "position", st0["position"])
    hyp = [bit01(st0["carry"]), Or(st0["inside"] == 0, st0["inside"] == BitVecVal(-1, 64)), bit01(st0["pred"]),
           ULE(st0["index"], 1600), ULE(st0["carried"], 1 << 40), ULE(a["len"], 1 << 40)]
    if fam == "avx512":
        # constants are initialised once before the loop; re-establish them as the init kernels leave them
        for n in ("odd_backslash_sequences", "quote_mask_and_bits", "whitespace_and_structurals", "newline_delimiters"):
            binary.load_symbol("__init_" + n + "_avx512.abi0")
        run_inits(g, binary, fam, ["odd_backslash_sequences", "quote_mask_and_bits", "whitespace_and_structurals", "newline_delimiters"])
        g.k[4] = st0["err"]
        g.regs["rax"], g.regs["rcx"] = ax, cx      # the init kernels use rax/rbx as scratch
        g.regs["rbx"] = BitVec("it_rbx2", 64)
    rec = []
    spec_st, spec_mask = block_spec(bs, st0, a["ndjson"])
    hooks = contract_hooks(binary, fam, [0])
    hooks[tl.flatten_entry] = flatten_hook(tl, rec, spec_mask)
    stops = {tl.cut, tl.ret_addr}
    paths = explore(g, binary, tl.cut, stops, hooks=hooks, max_paths=200)
    g_mask, g_args, g_state, g_ctl, g_frame = [], [], [], [], []
    for r in rec:
        pc = And(*r["pc"]) if r["pc"] else BoolVal(True)
        g_mask.append(Or(Not(pc), r["mask"] == spec_mask))
        g_args.append(Or(Not(pc), And(r["carried"] == st0["carried"], r["position"] == st0["position"], r["index"] == st0["index"], r["base"] == a["indexes"])))
    fargs = (spec_mask, st0["carried"], st0["position"], st0["index"])
    fl_idx, fl_car, fl_pos = FL_IDX(*fargs), FL_CAR(*fargs), FL_POS(*fargs)
    n_loop = n_done = 0
    for pm, end in paths:
        pc = And(*pm.pc_cond) if pm.pc_cond else BoolVal(True)
        w = state_words(pm, fam)
        if fam == "avx512":
            err_now = pm.k[4] if end == tl.cut else w["err"]
        else:
            err_now = w["err"]
        eqs = [w["carry"] == spec_st["carry"], w["inside"] == spec_st["inside"], err_now == spec_st["err"], w["pred"] == spec_st["pred"],
               w["index"] == fl_idx, w["carried"] == fl_car, w["position"] == fl_pos]
        g_state.append(Or(Not(pc), And(*eqs)))
        # control decision
        idx_full = fl_idx.__ge__(a["indexes_len"])            # signed compare as in the code (jge)
        if end == tl.ret_addr:
            n_done += 1
            processed = simplify(pm.load(pm.regs["rsp"] + tl.result_off - 0, 64)) if False else None
            g_ctl.append(Or(Not(pc), Or(idx_full, And(Not(ax < cx), Or((ax & 63) != 0, (a["len"] & 63) == 0)))))
        else:
            n_loop += 1
            g_ctl.append(Or(Not(pc), And(Not(idx_full), Or(ax < cx, And((ax & 63) == 0, (a["len"] & 63) != 0)))))
        for kind, reg, off, n in pm.accesses:
            if kind == "store" and reg not in ("stack", "p3", "inside", "qbits", "err", "ws", "st", "pred", "indexes", "index", "carried", "position"):
                g_frame.append(BoolVal(False))
    # ---- which bytes the next iteration sees, the consumed count, the result, and the read frame
    buf0 = g.mem["buf"]
    r = a["len"] & 63
    inv = [(ax & 63) == 0, cx == (a["len"] & BitVecVal(0xffffffffffffffc0, 64)), ax >= 0, ULE(ax, a["len"])]
    g_next, g_res, g_loads = [], [], []
    for pm, end in paths:
        pc = And(*pm.pc_cond) if pm.pc_cond else BoolVal(True)
        if end == tl.cut:
            nb = block_bytes(pm, fam)
            full = [Select(buf0, ax + i) for i in range(64)]
            masked = [If(ULT(BitVecVal(i, 64), r), Select(buf0, ax + i), BitVecVal(0x20, 8)) for i in range(64)]
            want = [If(ax < cx, f, mk) for f, mk in zip(full, masked)]
            g_next.append(Or(Not(pc), And(And(*[x == y for x, y in zip(nb, want)]),
                                          pm.regs["rax"] == If(ax < cx, ax + 64, ax + r),
                                          pm.regs["rcx"] == If(ax < cx, cx, r))))
        else:
            res = pm.load(pm.regs["rsp"] + tl.result_off, 64)   # at the ret: [rsp] = return address, then the arguments, then the result
            conds = [res == ax]
            if fam == "avx512":
                conds.append(load64(pm, "err") == spec_st["err"])
            g_res.append(Or(Not(pc), And(*conds)))
        for kind, reg, off, n in pm.accesses:
            if kind == "load" and reg == "buf":
                # full blocks lie inside the slice; the tail block may read up to the next 64-byte boundary
                g_loads.append(Or(Not(pc), And(UGE(off, ax), ULE(off + n, ax + 64),
                                               Or(ULE(off + n, a["len"]), Not(ax < cx)))))
    obls.append(Obl(k, "next#block-and-count", And(*g_next), hyp + inv, P + ["C04", "C05"]))
    obls.append(Obl(k, "done#result", And(*g_res), hyp + inv, P))
    obls.append(Obl(k, "loads#within-block", And(*g_loads) if g_loads else BoolVal(True), hyp + inv, P + ["C05"]))
    # ---- function entry: first arrival at the cut point / immediate return
    e_goals, e_loads = [], []
    n_entry = 0
    for pm, end in pre:
        pc = And(*pm.pc_cond) if pm.pc_cond else BoolVal(True)
        buf_e = pm.mem["buf"]
        if end == tl.cut:
            n_entry += 1
            nb = block_bytes(pm, fam)
            full = [Select(buf_e, BitVecVal(i, 64)) for i in range(64)]
            masked = [If(ULT(BitVecVal(i, 64), r), Select(buf_e, BitVecVal(i, 64)), BitVecVal(0x20, 8)) for i in range(64)]
            c64 = a["len"] & BitVecVal(0xffffffffffffffc0, 64)
            want = [If(c64 != 0, f, mk) for f, mk in zip(full, masked)]
            conds = [And(*[x == y for x, y in zip(nb, want)]), pm.regs["rax"] == If(c64 != 0, BitVecVal(64, 64), r),
                     pm.regs["rcx"] == If(c64 != 0, c64, r)]
            if fam == "avx512":
                conds.append(pm.k[4] == load64(pm, "err"))
            e_goals.append(Or(Not(pc), And(*conds)))
        else:
            e_goals.append(Or(Not(pc), a["len"] == 0))
        for kind, reg, off, n in pm.accesses:
            if kind == "load" and reg == "buf":
                e_loads.append(Or(Not(pc), ULE(off + n, 64)))
    ehyp = [ULE(a["len"], 1 << 40)]
    obls.append(Obl(k, "entry#first-block", And(BoolVal(n_entry > 0), *e_goals), ehyp, P + ["C05"]))
    obls.append(Obl(k, "entry#loads", And(*e_loads) if e_loads else BoolVal(True), ehyp, P + ["C05"]))
    obls.append(Obl(k, "iter#flatten-mask", And(*g_mask), hyp, P + ["C08"]))
    obls.append(Obl(k, "iter#flatten-args", And(*g_args), hyp, P))
    obls.append(Obl(k, "iter#state", And(*g_state), hyp, P + ["C08"]))
    obls.append(Obl(k, "iter#control", And(*g_ctl), hyp, P + ["C05"]))
    obls.append(Obl(k, "iter#frame", And(*g_frame) if g_frame else BoolVal(True), [], P + ["C05"]))
    obls.append(Obl(k, "iter#paths-cover", BoolVal(n_loop > 0 and n_done > 0 and len(rec) >= 1), [], P))
    obls.append(Obl(k, "iter#exhaustive", Or(*[And(*pm.pc_cond) if pm.pc_cond else BoolVal(True) for pm, _ in paths]), hyp, P))
    return obls, {"spec_mask": spec_mask}

def build_obligations(binary):
    for sname in ["__find_odd_backslash_sequences", "__find_quote_mask_and_bits", "__find_whitespace_and_structurals",
                  "__finalize_structurals", "__find_newline_delimiters"]:
        binary.load_symbol(sname + ".abi0")
        binary.load_symbol(sname + "_avx512.abi0")
    for sname in ["__init_odd_backslash_sequences", "__init_quote_mask_and_bits", "__init_whitespace_and_structurals", "__init_newline_delimiters"]:
        binary.load_symbol(sname + "_avx512.abi0")
    obls = flatten_obligations(binary)
    for fam in ("avx2", "avx512"):
        o, _ = toplevel_obligations(binary, fam)
        obls += o
    return obls


TASK_PROPS = set("C01 C02 C04 C05 C06 C07 C08".split())

def tasks():
    return [("kernels2", "build_obligations", {})]
