"""Symbolic x86-64 (AVX2 / AVX-512 subset) executor over objdump's Intel syntax, on z3 terms.

Registers: 64-bit GPRs, 512-bit vector registers (ymm/xmm are the low lanes; VEX/EVEX writes zero the
upper part), 64-bit mask registers, lazily evaluated flags. Memory: one z3 byte array per pointer
region (argument pointers, the Go stack) addressed base+offset; constants are read from the ELF.
Unknown mnemonics abort (fail closed).
"""
import re
from z3 import (BitVec, BitVecVal, BitVecRef, Bool, BoolVal, If, Extract, Concat, ZeroExt, SignExt, LShR, simplify,
                is_bv_value, And, Or, Not, Xor, Array, BitVecSort, Select, Store, ULT, UGT, ULE, UGE, is_app, is_const, BoolRef)

GPR64 = ["rax", "rbx", "rcx", "rdx", "rsi", "rdi", "rbp", "rsp", "r8", "r9", "r10", "r11", "r12", "r13", "r14", "r15"]
SUB = {}
for r, (d, w, b) in {"rax": ("eax", "ax", "al"), "rbx": ("ebx", "bx", "bl"), "rcx": ("ecx", "cx", "cl"), "rdx": ("edx", "dx", "dl"),
                     "rsi": ("esi", "si", "sil"), "rdi": ("edi", "di", "dil"), "rbp": ("ebp", "bp", "bpl"), "rsp": ("esp", "sp", "spl")}.items():
    SUB[d] = (r, 32); SUB[w] = (r, 16); SUB[b] = (r, 8)
for i in range(8, 16):
    SUB["r%dd" % i] = ("r%d" % i, 32); SUB["r%dw" % i] = ("r%d" % i, 16); SUB["r%db" % i] = ("r%d" % i, 8)

SIZES = {"BYTE": 8, "WORD": 16, "DWORD": 32, "QWORD": 64, "XMMWORD": 128, "YMMWORD": 256, "ZMMWORD": 512}

class Unsupported(Exception):
    pass

class PathEnd(Exception):
    pass

def bv(v, w=64):
    return BitVecVal(v, w)

class Machine:
    def __init__(self, binary, name="m"):
        self.bin = binary
        self.name = name
        self.regs = {r: BitVec("%s_%s0" % (name, r), 64) for r in GPR64}
        self.vec = {i: BitVec("%s_zmm%d_0" % (name, i), 512) for i in range(32)}
        self.k = {i: BitVec("%s_k%d_0" % (name, i), 64) for i in range(8)}
        self.flags = {}            # "cf","zf","sf","of" -> Bool
        self.mem = {}              # region name -> z3 Array(BV64 -> BV8)
        self.ptrs = {}             # pointer symbol name -> BitVec const
        self.pc_cond = []          # path condition
        self.accesses = []         # (kind, region, offset expr, nbytes)
        self.steps = 0
        self.trace = []

    # ---- pointers / memory -------------------------------------------------
    def pointer(self, pname):
        if pname not in self.ptrs:
            self.ptrs[pname] = BitVec("p_" + pname, 64)
            self.mem[pname] = Array("mem_%s_%s" % (self.name, pname), BitVecSort(64), BitVecSort(8))
        return self.ptrs[pname]

    def _resolve(self, addr):
        addr = simplify(addr)
        if is_bv_value(addr):
            return ("const", addr.as_long())
        # find a pointer symbol among the leaves
        found = None
        todo = [addr]
        seen = set()
        while todo:
            e = todo.pop()
            if e.get_id() in seen:
                continue
            seen.add(e.get_id())
            if is_const(e) and not is_bv_value(e):
                n = e.decl().name()
                if n.startswith("p_") and n[2:] in self.ptrs:
                    if found is not None and found != n[2:]:
                        raise Unsupported("address mixes two pointers: %s" % addr)
                    found = n[2:]
            else:
                todo.extend(e.children())
        if found is None:
            return ("consttab", addr)
        off = simplify(addr - self.ptrs[found])
        return (found, off)

    def load(self, addr, nbits):
        reg, off = self._resolve(addr)
        n = nbits // 8
        if reg == "const":
            if self.bin.writable(off):
                raise Unsupported("load from writable global %x" % off)
            data = self.bin.read(off, n)
            return BitVecVal(int.from_bytes(data, "little"), nbits)
        if reg == "consttab":
            t = self._table_load(off, n, nbits)
            if t is not None:
                return t
            # symbolic index into a read-only table: enumerate the addresses feasible under the path condition
            from z3 import Solver, sat
            sv = Solver()
            sv.set("timeout", 10000)
            for c in self.pc_cond:
                sv.add(c)
            vals = []
            while len(vals) <= 130:
                if sv.check() != sat:
                    break
                v = sv.model().eval(off, model_completion=True).as_long()
                vals.append(v)
                sv.add(off != v)
            if not vals or len(vals) > 128:
                raise Unsupported("cannot resolve address %s" % str(off)[:200])
            res = None
            for v in vals:
                if self.bin.writable(v):
                    raise Unsupported("load from writable global %x" % v)
                c = BitVecVal(int.from_bytes(self.bin.read(v, n), "little"), nbits)
                res = c if res is None else If(off == v, c, res)
            return simplify(res)
        self.accesses.append(("load", reg, off, n))
        arr = self.mem[reg]
        bs = [Select(arr, off + k) for k in range(n)]
        return simplify(Concat(*reversed(bs))) if n > 1 else bs[0]

    def _table_load(self, addr, n, nbits):
        """addr = C + zero_extend(byte expression): index a 256-entry read-only table held as a z3 array."""
        from z3 import is_app_of, Z3_OP_BADD, K
        if not is_app_of(addr, Z3_OP_BADD):
            return None
        consts = [c for c in addr.children() if is_bv_value(c)]
        rest = [c for c in addr.children() if not is_bv_value(c)]
        if len(consts) != 1 or len(rest) < 1:
            return None
        e = rest[0]
        for x in rest[1:]:
            e = e + x
        e = simplify(e)
        hi = simplify(Extract(63, 8, e))
        if not (is_bv_value(hi) and hi.as_long() == 0):
            return None
        base = consts[0].as_long()
        key = (base, n)
        if not hasattr(self, "_tables"):
            self._tables = {}
        if key not in self._tables:
            for v in (base, base + 255 + n - 1):
                if self.bin.writable(v):
                    raise Unsupported("load from writable global %x" % v)
            arrs = []
            for k in range(n):
                arr = K(BitVecSort(8), BitVecVal(0, 8))
                data = self.bin.read(base + k, 256)
                for i in range(256):
                    if data[i] != 0:
                        arr = Store(arr, BitVecVal(i, 8), BitVecVal(data[i], 8))
                arrs.append(arr)
            self._tables[key] = arrs
        idx = simplify(Extract(7, 0, e))
        bs = [Select(a, idx) for a in self._tables[key]]
        return simplify(Concat(*reversed(bs))) if n > 1 else bs[0]

    def store(self, addr, val, nbits):
        reg, off = self._resolve(addr)
        if reg == "const":
            raise Unsupported("store to absolute address %x" % off)
        n = nbits // 8
        self.accesses.append(("store", reg, off, n))
        arr = self.mem[reg]
        for k in range(n):
            arr = Store(arr, off + k, Extract(8 * k + 7, 8 * k, val))
        self.mem[reg] = arr

    # ---- operands ------------------------------------------------------------
    def read_reg(self, r):
        if r in self.regs:
            return self.regs[r]
        if r in SUB:
            base, w = SUB[r]
            return Extract(w - 1, 0, self.regs[base])
        m = re.match(r"([xyz])mm(\d+)$", r)
        if m:
            w = {"x": 128, "y": 256, "z": 512}[m.group(1)]
            return Extract(w - 1, 0, self.vec[int(m.group(2))])
        m = re.match(r"k(\d)$", r)
        if m:
            return self.k[int(m.group(1))]
        raise Unsupported("register " + r)

    def write_reg(self, r, v):
        if r in self.regs:
            assert v.size() == 64, (r, v.size())
            self.regs[r] = simplify(v)
            return
        if r in SUB:
            base, w = SUB[r]
            assert v.size() == w, (r, v.size(), w)
            if w == 32:
                self.regs[base] = simplify(ZeroExt(32, v))
            else:
                self.regs[base] = simplify(Concat(Extract(63, w, self.regs[base]), v))
            return
        m = re.match(r"([xyz])mm(\d+)$", r)
        if m:
            w = {"x": 128, "y": 256, "z": 512}[m.group(1)]
            assert v.size() == w, (r, v.size(), w)
            self.vec[int(m.group(2))] = simplify(ZeroExt(512 - w, v)) if w < 512 else simplify(v)
            return
        m = re.match(r"k(\d)$", r)
        if m:
            assert v.size() == 64
            self.k[int(m.group(1))] = simplify(v)
            return
        raise Unsupported("register " + r)

    def is_reg(self, op):
        return op in self.regs or op in SUB or re.match(r"[xyz]mm\d+$", op) or re.match(r"k\d$", op)

    def reg_width(self, r):
        if r in self.regs:
            return 64
        if r in SUB:
            return SUB[r][1]
        m = re.match(r"([xyz])mm(\d+)$", r)
        if m:
            return {"x": 128, "y": 256, "z": 512}[m.group(1)]
        if re.match(r"k\d$", r):
            return 64
        raise Unsupported("register " + r)

    def mem_addr(self, op, ins):
        m = re.search(r"\[(.*)\]", op)
        expr = m.group(1)
        if expr.startswith("rip"):
            if ins.comment_addr is None:
                raise Unsupported("rip-relative without resolved address: " + ins.text)
            return bv(ins.comment_addr)
        total = bv(0)
        for sign, term in re.findall(r"([+-]?)\s*([^+-]+)", expr):
            term = term.strip()
            if "*" in term:
                a, b = term.split("*")
                t = self.read_reg(a.strip()) * bv(int(b, 0))
            elif term.startswith("0x") or term.isdigit():
                t = bv(int(term, 0))
            else:
                t = self.read_reg(term)
                if t.size() != 64:
                    t = ZeroExt(64 - t.size(), t)
            total = total - t if sign == "-" else total + t
        return total

    def op_width(self, op, default=None):
        m = re.match(r"(\w+) PTR", op)
        if m:
            return SIZES[m.group(1)]
        if self.is_reg(op):
            return self.reg_width(op)
        return default

    def read(self, op, ins, width=None):
        if self.is_reg(op):
            return self.read_reg(op)
        if "[" in op:
            w = self.op_width(op, width)
            if w is None:
                raise Unsupported("memory operand without size: " + ins.text)
            return self.load(self.mem_addr(op, ins), w)
        # immediate
        v = int(op, 0)
        return BitVecVal(v, width or 64)

    def write(self, op, v, ins):
        if self.is_reg(op):
            self.write_reg(op, v)
        elif "[" in op:
            w = self.op_width(op, v.size())
            self.store(self.mem_addr(op, ins), v, w)
        else:
            raise Unsupported("write to " + op)

    # ---- flags ---------------------------------------------------------------
    def set_logic_flags(self, r):
        self.flags = {"cf": BoolVal(False), "of": BoolVal(False), "zf": r == 0, "sf": Extract(r.size() - 1, r.size() - 1, r) == 1}

    def set_add_flags(self, a, b, r):
        w = a.size()
        self.flags = {"cf": ULT(r, a), "zf": r == 0, "sf": Extract(w - 1, w - 1, r) == 1,
                      "of": And((Extract(w - 1, w - 1, a) == Extract(w - 1, w - 1, b)), (Extract(w - 1, w - 1, r) != Extract(w - 1, w - 1, a)))}

    def set_sub_flags(self, a, b, r):
        w = a.size()
        self.flags = {"cf": ULT(a, b), "zf": r == 0, "sf": Extract(w - 1, w - 1, r) == 1,
                      "of": And((Extract(w - 1, w - 1, a) != Extract(w - 1, w - 1, b)), (Extract(w - 1, w - 1, r) != Extract(w - 1, w - 1, a)))}

    def cond(self, cc):
        f = self.flags
        def g(n):
            if n not in f:
                raise Unsupported("flag %s read before being set" % n)
            return f[n]
        table = {
            "e": lambda: g("zf"), "z": lambda: g("zf"), "ne": lambda: Not(g("zf")), "nz": lambda: Not(g("zf")),
            "b": lambda: g("cf"), "c": lambda: g("cf"), "nae": lambda: g("cf"), "ae": lambda: Not(g("cf")), "nb": lambda: Not(g("cf")), "nc": lambda: Not(g("cf")),
            "be": lambda: Or(g("cf"), g("zf")), "na": lambda: Or(g("cf"), g("zf")), "a": lambda: And(Not(g("cf")), Not(g("zf"))),
            "l": lambda: Xor(g("sf"), g("of")), "ge": lambda: Not(Xor(g("sf"), g("of"))),
            "le": lambda: Or(g("zf"), Xor(g("sf"), g("of"))), "g": lambda: And(Not(g("zf")), Not(Xor(g("sf"), g("of")))),
            "s": lambda: g("sf"), "ns": lambda: Not(g("sf")),
        }
        if cc not in table:
            raise Unsupported("condition code " + cc)
        return simplify(table[cc]())

    # ---- vector helpers ------------------------------------------------------
    @staticmethod
    def bytes_of(v):
        return [Extract(8 * i + 7, 8 * i, v) for i in range(v.size() // 8)]

    @staticmethod
    def from_bytes(bs):
        return simplify(Concat(*reversed(bs)))

    def vec_dest(self, op, v):
        """VEX/EVEX destination write (zeroes the upper part)."""
        self.write_reg(op, v)

    # ---- execution -----------------------------------------------------------
    def step(self, ins):
        """Execute one instruction; returns the next address, or ('branch', cond, taken, fallthrough)."""
        self.steps += 1
        m, ops = ins.mnem, ins.ops
        nxt = ins.next
        R, W = self.read, self.write
        if m in ("mov", "movabs"):
            w = self.op_width(ops[0]) or self.op_width(ops[1])
            W(ops[0], R(ops[1], ins, w), ins)
        elif m == "movzx":
            dw = self.op_width(ops[0]); sw = self.op_width(ops[1])
            W(ops[0], ZeroExt(dw - sw, R(ops[1], ins, sw)), ins)
        elif m in ("movsx", "movsxd"):
            dw = self.op_width(ops[0]); sw = self.op_width(ops[1])
            W(ops[0], SignExt(dw - sw, R(ops[1], ins, sw)), ins)
        elif m == "lea":
            a = self.mem_addr(ops[1], ins)
            w = self.op_width(ops[0])
            W(ops[0], Extract(w - 1, 0, a) if w < 64 else a, ins)
        elif m in ("add", "sub", "and", "or", "xor", "cmp", "test"):
            w = self.op_width(ops[0]) or self.op_width(ops[1])
            a = R(ops[0], ins, w)
            b = R(ops[1], ins, w)
            if b.size() != a.size():
                b = SignExt(a.size() - b.size(), b) if b.size() < a.size() else Extract(a.size() - 1, 0, b)
            if m == "add":
                r = a + b; self.set_add_flags(a, b, r); W(ops[0], r, ins)
            elif m == "sub":
                r = a - b; self.set_sub_flags(a, b, r); W(ops[0], r, ins)
            elif m == "cmp":
                r = a - b; self.set_sub_flags(a, b, r)
            elif m == "and":
                r = a & b; self.set_logic_flags(r); W(ops[0], r, ins)
            elif m == "test":
                r = a & b; self.set_logic_flags(r)
            elif m == "or":
                r = a | b; self.set_logic_flags(r); W(ops[0], r, ins)
            elif m == "xor":
                r = a ^ b; self.set_logic_flags(r); W(ops[0], r, ins)
        elif m == "andn":
            a, b = R(ops[1], ins), R(ops[2], ins)
            r = ~a & b
            self.set_logic_flags(r)
            W(ops[0], r, ins)
        elif m == "not":
            W(ops[0], ~R(ops[0], ins), ins)
        elif m == "neg":
            a = R(ops[0], ins); r = -a
            self.set_sub_flags(BitVecVal(0, a.size()), a, r); W(ops[0], r, ins)
        elif m in ("inc", "dec"):
            a = R(ops[0], ins)
            one = BitVecVal(1, a.size())
            r = a + one if m == "inc" else a - one
            cf = self.flags.get("cf")
            if m == "inc":
                self.set_add_flags(a, one, r)
            else:
                self.set_sub_flags(a, one, r)
            if cf is not None:
                self.flags["cf"] = cf
            else:
                self.flags.pop("cf", None)
            W(ops[0], r, ins)
        elif m in ("shl", "shr", "sar"):
            a = R(ops[0], ins)
            w = a.size()
            cnt = R(ops[1], ins, 8) if len(ops) > 1 else BitVecVal(1, 8)
            cnt = ZeroExt(w - cnt.size(), cnt) if cnt.size() < w else Extract(w - 1, 0, cnt)
            cnt = cnt & BitVecVal(63 if w == 64 else 31, w)
            if m == "shl":
                r = a << cnt
            elif m == "shr":
                r = LShR(a, cnt)
            else:
                r = a >> cnt
            # flags after shifts: ZF/SF defined when count != 0; CF = last bit shifted out. Only ZF/SF modelled.
            self.flags = {"zf": r == 0, "sf": Extract(w - 1, w - 1, r) == 1}
            W(ops[0], r, ins)
        elif m == "tzcnt":
            a = R(ops[1], ins)
            w = a.size()
            r = BitVecVal(w, w)
            for i in reversed(range(w)):
                r = If(Extract(i, i, a) == 1, BitVecVal(i, w), r)
            self.flags = {"cf": a == 0, "zf": simplify(r) == 0}
            W(ops[0], r, ins)
        elif m.startswith("set") and len(ops) == 1:
            c = self.cond(m[3:])
            W(ops[0], If(c, BitVecVal(1, 8), BitVecVal(0, 8)), ins)
        elif m.startswith("cmov"):
            c = self.cond(m[4:])
            a, b = R(ops[0], ins), R(ops[1], ins)
            W(ops[0], If(c, b, a), ins)
        elif m == "push":
            self.regs["rsp"] = simplify(self.regs["rsp"] - 8)
            self.store(self.regs["rsp"], R(ops[0], ins), 64)
        elif m == "pop":
            v = self.load(self.regs["rsp"], 64)
            self.regs["rsp"] = simplify(self.regs["rsp"] + 8)
            W(ops[0], v, ins)
        elif m == "call":
            target = int(ops[0].split()[0], 16)
            self.regs["rsp"] = simplify(self.regs["rsp"] - 8)
            self.store(self.regs["rsp"], bv(nxt), 64)
            return target
        elif m == "ret":
            v = simplify(self.load(self.regs["rsp"], 64))
            self.regs["rsp"] = simplify(self.regs["rsp"] + 8)
            if not is_bv_value(v):
                return None          # return to the (symbolic) caller: end of the kernel
            return v.as_long()
        elif m == "jmp":
            return int(ops[0].split()[0], 16)
        elif m.startswith("j"):
            c = self.cond(m[1:])
            return ("branch", c, int(ops[0].split()[0], 16), nxt)
        elif m in ("nop", "vzeroupper", "data16", "cs", "xchg") and (m != "xchg" or ops == ["ax", "ax"]):
            if m == "vzeroupper":
                for i in range(16):
                    self.vec[i] = simplify(ZeroExt(384, Extract(127, 0, self.vec[i])))
        # ---- vector moves ----
        elif m in ("vmovdqu", "vmovdqa", "vmovdqu32", "vmovdqu64", "vmovdqa32", "vmovdqa64", "vmovdqu8"):
            w = self.op_width(ops[0]) or self.op_width(ops[1])
            W(ops[0], R(ops[1], ins, w), ins)
        elif m in ("vmovq", "movq"):
            if self.is_reg(ops[0]) and ops[0].startswith("xmm"):
                v = R(ops[1], ins, 64)
                if v.size() > 64:
                    v = Extract(63, 0, v)
                if m == "vmovq":
                    self.write_reg(ops[0], ZeroExt(64, v))
                else:
                    self.write_reg(ops[0], ZeroExt(64, v))  # movq xmm, r/m64 also zeroes bits 127:64 (upper lanes kept: not used here)
            else:
                W(ops[0], Extract(63, 0, R(ops[1], ins)), ins)
        elif m == "vpbroadcastb":
            src = R(ops[1], ins)
            b = Extract(7, 0, src)
            n = self.reg_width(ops[0]) // 8
            self.vec_dest(ops[0], self.from_bytes([b] * n))
        elif m == "vpbroadcastq":
            src = R(ops[1], ins, 64)
            q = Extract(63, 0, src)
            n = self.reg_width(ops[0]) // 64
            self.vec_dest(ops[0], simplify(Concat(*([q] * n))))
        elif m in ("vpand", "vpandd", "vpandq", "vpor", "vpord", "vporq", "vpxor", "vpxord", "vpxorq", "vpandn", "vpandnd"):
            w = self.reg_width(ops[0])
            a, b = R(ops[1], ins, w), R(ops[2], ins, w)
            if m.startswith("vpandn"):
                r = ~a & b
            elif m.startswith("vpand"):
                r = a & b
            elif m.startswith("vpor"):
                r = a | b
            else:
                r = a ^ b
            self.vec_dest(ops[0], r)
        elif m in ("vpcmpeqb", "vpcmpgtb", "vpcmpeqd"):
            if re.match(r"k\d", ops[0]):
                w = self.reg_width(ops[1])
                a, b = R(ops[1], ins, w), R(ops[2], ins, w)
                bits = []
                for x, y in zip(self.bytes_of(a), self.bytes_of(b)):
                    c = (x == y) if m == "vpcmpeqb" else (x > y)
                    bits.append(If(c, BitVecVal(1, 1), BitVecVal(0, 1)))
                r = Concat(*reversed(bits))
                self.write_reg(ops[0].split("{")[0], ZeroExt(64 - r.size(), r) if r.size() < 64 else r)
            else:
                w = self.reg_width(ops[0])
                a, b = R(ops[1], ins, w), R(ops[2], ins, w)
                if m == "vpcmpeqd":
                    es = 32
                else:
                    es = 8
                outs = []
                for i in range(w // es):
                    x, y = Extract(es * i + es - 1, es * i, a), Extract(es * i + es - 1, es * i, b)
                    c = (x == y) if m != "vpcmpgtb" else (x > y)
                    outs.append(If(c, BitVecVal(-1, es), BitVecVal(0, es)))
                self.vec_dest(ops[0], simplify(Concat(*reversed(outs))))
        elif m == "vpmovmskb":
            a = R(ops[1], ins)
            bits = [Extract(7, 7, x) for x in self.bytes_of(a)]
            r = Concat(*reversed(bits))
            dw = self.op_width(ops[0])
            self.write_reg(ops[0], ZeroExt(dw - r.size(), r))
        elif m == "vpshufb":
            w = self.reg_width(ops[0])
            tbl, idx = R(ops[1], ins, w), R(ops[2], ins, w)
            outs = []
            for lane in range(w // 128):
                t = Extract(128 * lane + 127, 128 * lane, tbl)
                for j in range(16):
                    ib = Extract(128 * lane + 8 * j + 7, 128 * lane + 8 * j, idx)
                    sh = ZeroExt(120, ib & BitVecVal(0x0f, 8)) * BitVecVal(8, 128)
                    val = Extract(7, 0, LShR(t, sh))
                    outs.append(If(Extract(7, 7, ib) == 1, BitVecVal(0, 8), val))
            self.vec_dest(ops[0], self.from_bytes(outs))
        elif m == "vpsrld":
            w = self.reg_width(ops[0])
            a = R(ops[1], ins, w)
            n = int(ops[2], 0)
            outs = [LShR(Extract(32 * i + 31, 32 * i, a), BitVecVal(n, 32)) for i in range(w // 32)]
            self.vec_dest(ops[0], simplify(Concat(*reversed(outs))))
        elif m in ("vpclmullqlqdq", "vpclmulqdq"):
            if m == "vpclmulqdq" and int(ops[3], 0) != 0:
                raise Unsupported("vpclmulqdq imm != 0")
            a = Extract(63, 0, R(ops[1], ins, 128))
            b = Extract(63, 0, R(ops[2], ins, 128))
            acc = BitVecVal(0, 128)
            az = ZeroExt(64, a)
            for i in range(64):
                acc = acc ^ If(Extract(i, i, b) == 1, az << i, BitVecVal(0, 128))
            self.vec_dest(ops[0], simplify(acc))
        elif m == "valignd":
            w = self.reg_width(ops[0])
            a, b = R(ops[1], ins, w), R(ops[2], ins, w)
            n = int(ops[3], 0)
            cat = Concat(a, b)
            r = Extract(w - 1 + 32 * n, 32 * n, cat)
            self.vec_dest(ops[0], r)
        elif m in ("kmovq", "kmovd", "kmovw", "kmovb"):
            kw = {"q": 64, "d": 32, "w": 16, "b": 8}[m[-1]]
            src = R(ops[1], ins, kw)
            v = Extract(kw - 1, 0, src) if src.size() > kw else src
            v = ZeroExt(64 - v.size(), v) if v.size() < 64 else v
            if re.match(r"k\d", ops[0]):
                self.write_reg(ops[0], v)
            else:
                dw = self.op_width(ops[0])
                W(ops[0], Extract(dw - 1, 0, v), ins)
        elif m in ("knotq", "kandq", "korq", "kxorq", "kandnq"):
            if m == "knotq":
                self.write_reg(ops[0], ~R(ops[1], ins))
            else:
                a, b = R(ops[1], ins), R(ops[2], ins)
                r = {"kandq": a & b, "korq": a | b, "kxorq": a ^ b, "kandnq": ~a & b}[m]
                self.write_reg(ops[0], r)
        else:
            raise Unsupported("mnemonic %s (%s)" % (m, ins.text))
        return nxt
