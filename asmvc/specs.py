"""S5: stage-1 block semantics as naive sequential (per byte / per bit) definitions over z3 terms.
These are the oracle for both kernel families; they are written position by position, not bit-parallel."""
from z3 import BitVecVal, If, Extract, Concat, And, Or, Not, BoolVal, ULT, simplify, LShR, ZeroExt

def bit(v, i):
    return Extract(i, i, v) == 1

def from_bools(bs):
    """bools (position 0 first) -> 64-bit mask"""
    bits = [If(b, BitVecVal(1, 1), BitVecVal(0, 1)) for b in bs]
    return simplify(Concat(*reversed(bits)))

def byte_mask(bs, pred):
    return from_bools([pred(b) for b in bs])

def spec_backslash(bs):
    return byte_mask(bs, lambda b: b == 0x5c)

def spec_odd_ends(bs, prev_odd_bit):
    """odd_ends[i]: b[i] is not a backslash and is preceded by an odd-length run of backslashes
    (the run may continue from the previous block: prev_odd_bit says that block ended in an odd run).
    Returns (odd_ends mask, carry: this block ends in an odd-length run)."""
    odd = prev_odd_bit        # parity of the current backslash run length
    outs = []
    for b in bs:
        is_bs = b == 0x5c
        outs.append(And(Not(is_bs), odd))
        odd = If(is_bs, Not(odd), BoolVal(False))
    return from_bools(outs), odd

def spec_quotes(bs, odd_ends, prev_inside_bit):
    """quote_bits[i]: unescaped quote. quote_mask[i]: inside a string after processing position i
    (opening quote included, closing quote excluded), seeded by prev_inside_bit.
    err[i]: control character (<0x20) inside quote_mask. Returns (quote_bits, quote_mask, inside_out, err)."""
    inside = prev_inside_bit
    qb, qm, err = [], [], []
    for i, b in enumerate(bs):
        q = And(b == 0x22, Not(bit(odd_ends, i)))
        inside = If(q, Not(inside), inside)
        qb.append(q)
        qm.append(inside)
        err.append(And(inside, ULT(b, 0x20)))
    return from_bools(qb), from_bools(qm), inside, from_bools(err)

def is_ws(b):
    return Or(b == 0x20, b == 0x09, b == 0x0a, b == 0x0d)

def is_struct(b):
    return Or(b == 0x7b, b == 0x7d, b == 0x5b, b == 0x5d, b == 0x3a, b == 0x2c)

def spec_whitespace(bs):
    return byte_mask(bs, is_ws)

def spec_structurals(bs):
    return byte_mask(bs, is_struct)

def spec_finalize(structurals, whitespace, quote_mask, quote_bits, prev_pred_bit):
    """Position by position: a structural character outside strings, every unescaped quote that opens a
    string, and every first character of an atom/number (a non-white-space, non-structural, out-of-string
    character whose predecessor is white space or structural - pseudo structural). Closing quotes are dropped.
    Returns (final structurals, pseudo-pred carry out)."""
    outs = []
    pred = prev_pred_bit      # previous position is white space or structural (after string masking)
    for i in range(64):
        s, w, qm, qb = bit(structurals, i), bit(whitespace, i), bit(quote_mask, i), bit(quote_bits, i)
        s1 = Or(And(s, Not(qm)), qb)             # structural outside strings, or any quote
        pseudo = And(pred, Not(w), Not(qm))      # starts after a predecessor, not white space, not in string
        pred = Or(s1, w)
        keep = Or(s1, pseudo)
        outs.append(And(keep, Not(And(qb, Not(qm)))))   # drop closing quotes (quote bit with mask already off)
    return from_bools(outs), pred

def spec_newline(bs, quote_mask):
    return from_bools([And(b == 0x0a, Not(bit(quote_mask, i))) for i, b in enumerate(bs)])
